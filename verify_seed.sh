#!/bin/sh
# Confirms a seeded change independently, in a scratch worktree:
#   (1) the demonstration passes on the unchanged tree,
#   (2) the change applies, compiles, and the demonstration fails with it,
#   (3) the repository's own suite still passes with it.
# usage: verify_seed.sh /verif/seeded/<name>      -> writes <dir>/verify.log, prints a summary line
set -u
DIR="$(readlink -f "$1")"; NAME="$(basename "$DIR")"
WT="/var/tmp/seedchk/$NAME"
export CARGO_NET_OFFLINE=true
export CARGO_TARGET_DIR="${SEEDCHK_TARGET:-/var/tmp/seedchk/target}"
mkdir -p /var/tmp/seedchk
rm -rf "$WT"
git -C /repo worktree add -q --detach "$WT" HEAD || exit 2
cp "$DIR/demo.rs" "$WT/tests/seed_demo.rs"
LOG="$DIR/verify.log"; : > "$LOG"
cd "$WT" || exit 2
cargo test --offline --test seed_demo >>"$LOG" 2>&1; clean=$?
git apply "$DIR/patch.diff" >>"$LOG" 2>&1; applied=$?
cargo test --offline --test seed_demo >>"$LOG" 2>&1; with=$?
rm -f tests/seed_demo.rs
cargo test --offline --workspace --no-fail-fast >>"$LOG" 2>&1; suite=$?
passed=$(grep -E "^test result" "$LOG" | tail -40 | awk '{p+=$4; f+=$6} END {print p"/"f}')
echo "$NAME demo_on_clean_tree_exit=$clean patch_applies=$applied demo_with_change_exit=$with suite_with_change_exit=$suite (suite+demo counts $passed)"
cd /; git -C /repo worktree remove --force "$WT"
