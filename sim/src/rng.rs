//! The one PRNG of the simulator. Everything random in a run derives from a
//! single 64-bit seed through SplitMix64 streams.

#[derive(Clone, Debug)]
pub struct Rng {
    s: u64,
}

pub fn splitmix(x: &mut u64) -> u64 {
    *x = x.wrapping_add(0x9e37_79b9_7f4a_7c15);
    let mut z = *x;
    z = (z ^ (z >> 30)).wrapping_mul(0xbf58_476d_1ce4_e5b9);
    z = (z ^ (z >> 27)).wrapping_mul(0x94d0_49bb_1331_11eb);
    z ^ (z >> 31)
}

/// Derives an independent seed from a seed and a stream label.
pub fn derive(seed: u64, label: u64) -> u64 {
    let mut s = seed ^ label.wrapping_mul(0xd6e8_feb8_6659_fd93).rotate_left(17);
    let a = splitmix(&mut s);
    let _ = splitmix(&mut s);
    a ^ splitmix(&mut s)
}

impl Rng {
    pub fn new(seed: u64) -> Self {
        let mut r = Rng { s: seed ^ 0x1234_5678_9abc_def0 };
        r.next();
        r
    }

    pub fn next(&mut self) -> u64 {
        splitmix(&mut self.s)
    }

    /// Uniform in `0..n` (n > 0).
    pub fn below(&mut self, n: u64) -> u64 {
        debug_assert!(n > 0);
        // Multiply-shift; bias is irrelevant at these sizes.
        ((u128::from(self.next()) * u128::from(n)) >> 64) as u64
    }

    pub fn usize_below(&mut self, n: usize) -> usize {
        self.below(n as u64) as usize
    }

    /// Uniform in `lo..=hi`.
    pub fn range(&mut self, lo: u64, hi: u64) -> u64 {
        lo + self.below(hi - lo + 1)
    }

    /// True with probability `num/den`.
    pub fn chance(&mut self, num: u64, den: u64) -> bool {
        self.below(den) < num
    }

    pub fn pick<'a, T>(&mut self, xs: &'a [T]) -> &'a T {
        &xs[self.usize_below(xs.len())]
    }

    pub fn shuffle<T>(&mut self, xs: &mut [T]) {
        for i in (1..xs.len()).rev() {
            let j = self.usize_below(i + 1);
            xs.swap(i, j);
        }
    }

    pub fn bytes(&mut self, n: usize) -> Vec<u8> {
        let mut v = Vec::with_capacity(n);
        while v.len() < n {
            let x = self.next().to_le_bytes();
            for b in x {
                if v.len() < n {
                    v.push(b);
                }
            }
        }
        v
    }

    /// Log-uniform integer in `lo..=hi` (lo >= 1).
    pub fn log_range(&mut self, lo: u64, hi: u64) -> u64 {
        let llo = (lo as f64).ln();
        let lhi = (hi as f64).ln();
        let u = (self.next() >> 11) as f64 / (1u64 << 53) as f64;
        let x = (llo + u * (lhi - llo)).exp();
        (x as u64).clamp(lo, hi)
    }

    pub fn fork(&mut self) -> Rng {
        Rng::new(self.next())
    }
}
