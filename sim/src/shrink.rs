//! Minimisation of failing programs (ddmin at instruction granularity).

use crate::asm::{instruction_offsets, op};

/// Splits code into instructions (a PUSH keeps its immediate).
pub fn split(code: &[u8]) -> Vec<Vec<u8>> {
    let offs = instruction_offsets(code);
    let mut v = Vec::new();
    for (i, o) in offs.iter().enumerate() {
        let end = if i + 1 < offs.len() { offs[i + 1] } else { code.len() };
        v.push(code[*o..end.min(code.len())].to_vec());
    }
    v
}

pub fn join(ins: &[Vec<u8>]) -> Vec<u8> {
    ins.iter().flatten().copied().collect()
}

/// Jump targets are absolute offsets, so deleting instructions in front of a
/// JUMPDEST breaks them. Deleted instructions are therefore first replaced by
/// same-length filler (JUMPDEST bytes are inert) and only removed outright
/// when the program has no jumps.
fn neutralise(ins: &[Vec<u8>], from: usize, to: usize) -> Vec<Vec<u8>> {
    let mut v = ins.to_vec();
    for item in v.iter_mut().take(to).skip(from) {
        let n = item.len();
        *item = vec![op::JUMPDEST; n];
    }
    v
}

/// Generic ddmin. `fails` must be deterministic. Returns the smallest failing
/// program found within `budget` candidate executions.
pub fn minimise(code: &[u8], budget: usize, mut fails: impl FnMut(&[u8]) -> bool) -> Vec<u8> {
    let mut best = code.to_vec();
    let mut spent = 0usize;
    let has_jumps = |c: &[u8]| split(c).iter().any(|i| i[0] == op::JUMP || i[0] == op::JUMPI);

    // Phase 1: neutralise chunks (keeps offsets stable).
    let mut ins = split(&best);
    let mut chunk = (ins.len() / 2).max(1);
    while chunk >= 1 && spent < budget {
        let mut i = 0;
        let mut progressed = false;
        while i < ins.len() && spent < budget {
            let to = (i + chunk).min(ins.len());
            if ins[i..to].iter().all(|x| x.iter().all(|b| *b == op::JUMPDEST)) {
                i = to;
                continue;
            }
            let cand = neutralise(&ins, i, to);
            let bytes = join(&cand);
            spent += 1;
            if fails(&bytes) {
                ins = split(&bytes);
                best = bytes;
                progressed = true;
            }
            i = to;
        }
        if chunk == 1 && !progressed {
            break;
        }
        if !progressed || chunk > 1 {
            chunk = if chunk == 1 { 1 } else { chunk / 2 };
        }
        if chunk == 1 && !progressed {
            break;
        }
    }

    // Phase 2: drop filler outright where that still fails (always safe to
    // try; jump targets may break, the predicate decides).
    let ins = split(&best);
    let without: Vec<Vec<u8>> = ins.iter().filter(|x| !(x.len() == 1 && x[0] == op::JUMPDEST)).cloned().collect();
    if without.len() < ins.len() && spent < budget {
        let bytes = join(&without);
        spent += 1;
        if !bytes.is_empty() && fails(&bytes) {
            best = bytes;
        } else if !has_jumps(&best) {
            // no jumps: removing filler one by one is safe to attempt
            let mut cur = split(&best);
            let mut k = 0;
            while k < cur.len() && spent < budget {
                if cur[k].len() == 1 && cur[k][0] == op::JUMPDEST {
                    let mut cand = cur.clone();
                    cand.remove(k);
                    let bytes = join(&cand);
                    spent += 1;
                    if !bytes.is_empty() && fails(&bytes) {
                        cur = cand;
                        best = bytes;
                        continue;
                    }
                }
                k += 1;
            }
        }
    }

    // Phase 3: truncate the tail.
    let mut ins = split(&best);
    while ins.len() > 1 && spent < budget {
        let cand = join(&ins[..ins.len() - 1]);
        spent += 1;
        if fails(&cand) {
            ins.pop();
            best = cand;
        } else {
            break;
        }
    }
    best
}
