//! Minimisation of failing programs (ddmin at instruction granularity).

use crate::asm::{instruction_offsets, op};

/// Splits code into instructions (a PUSH keeps its immediate).
pub fn split(code: &[u8]) -> Vec<Vec<u8>> {
    let offs = instruction_offsets(code);
    let mut v = Vec::new();
    for (i, o) in offs.iter().enumerate() {
        let end = if i + 1 < offs.len() { offs[i + 1] } else { code.len() };
        v.push(code[*o..end.min(code.len())].to_vec());
    }
    v
}

pub fn join(ins: &[Vec<u8>]) -> Vec<u8> {
    ins.iter().flatten().copied().collect()
}

/// Jump targets are absolute offsets, so deleting instructions in front of a
/// JUMPDEST breaks them. Deleted instructions are therefore first replaced by
/// same-length filler (JUMPDEST bytes are inert) and only removed outright
/// when the program has no jumps.
fn neutralise(ins: &[Vec<u8>], from: usize, to: usize) -> Vec<Vec<u8>> {
    let mut v = ins.to_vec();
    for item in v.iter_mut().take(to).skip(from) {
        let n = item.len();
        *item = vec![op::JUMPDEST; n];
    }
    v
}

/// Generic ddmin. `fails` must be deterministic. Returns the smallest failing
/// program found within `budget` candidate executions.
pub fn minimise(code: &[u8], budget: usize, mut fails: impl FnMut(&[u8]) -> bool) -> Vec<u8> {
    let mut best = code.to_vec();
    let mut spent = 0usize;
    let has_jumps = |c: &[u8]| split(c).iter().any(|i| i[0] == op::JUMP || i[0] == op::JUMPI);

    // Phase 1: neutralise chunks (keeps offsets stable).
    let mut ins = split(&best);
    let mut chunk = (ins.len() / 2).max(1);
    while chunk >= 1 && spent < budget {
        let mut i = 0;
        let mut progressed = false;
        while i < ins.len() && spent < budget {
            let to = (i + chunk).min(ins.len());
            if ins[i..to].iter().all(|x| x.iter().all(|b| *b == op::JUMPDEST)) {
                i = to;
                continue;
            }
            let cand = neutralise(&ins, i, to);
            let bytes = join(&cand);
            spent += 1;
            if fails(&bytes) {
                ins = split(&bytes);
                best = bytes;
                progressed = true;
            }
            i = to;
        }
        if chunk == 1 && !progressed {
            break;
        }
        if !progressed || chunk > 1 {
            chunk = if chunk == 1 { 1 } else { chunk / 2 };
        }
        if chunk == 1 && !progressed {
            break;
        }
    }

    // Phase 2: drop filler outright where that still fails (always safe to
    // try; jump targets may break, the predicate decides).
    let ins = split(&best);
    let without: Vec<Vec<u8>> = ins.iter().filter(|x| !(x.len() == 1 && x[0] == op::JUMPDEST)).cloned().collect();
    if without.len() < ins.len() && spent < budget {
        let bytes = join(&without);
        spent += 1;
        if !bytes.is_empty() && fails(&bytes) {
            best = bytes;
        } else if !has_jumps(&best) {
            // no jumps: removing filler one by one is safe to attempt
            let mut cur = split(&best);
            let mut k = 0;
            while k < cur.len() && spent < budget {
                if cur[k].len() == 1 && cur[k][0] == op::JUMPDEST {
                    let mut cand = cur.clone();
                    cand.remove(k);
                    let bytes = join(&cand);
                    spent += 1;
                    if !bytes.is_empty() && fails(&bytes) {
                        cur = cand;
                        best = bytes;
                        continue;
                    }
                }
                k += 1;
            }
        }
    }

    // Phase 2b: remove runs of filler and re-point the jump targets behind
    // them (PUSH1/PUSH2 immediates that name an offset after the run). The
    // predicate decides whether the rewrite kept the failure.
    loop {
        if spent >= budget {
            break;
        }
        let ins = split(&best);
        // Find the longest run of single-byte JUMPDEST filler (keep one).
        let mut offs = Vec::with_capacity(ins.len());
        let mut at = 0usize;
        for i in &ins {
            offs.push(at);
            at += i.len();
        }
        let mut best_run: Option<(usize, usize)> = None; // (first index, count)
        let mut i = 0;
        while i < ins.len() {
            if ins[i].len() == 1 && ins[i][0] == op::JUMPDEST {
                let mut j = i;
                while j < ins.len() && ins[j].len() == 1 && ins[j][0] == op::JUMPDEST {
                    j += 1;
                }
                if j - i >= 2 && best_run.map_or(true, |(_, c)| j - i > c) {
                    best_run = Some((i, j - i));
                }
                i = j;
            } else {
                i += 1;
            }
        }
        let Some((first, count)) = best_run else { break };
        let removed = count - 1;
        let run_start = offs[first];
        let mut cand: Vec<Vec<u8>> = Vec::with_capacity(ins.len() - removed);
        for (k, instr) in ins.iter().enumerate() {
            if k > first && k < first + count {
                continue;
            }
            let mut instr = instr.clone();
            let opc = instr[0];
            if (opc == op::PUSH1 || opc == op::PUSH1 + 1) && instr.len() == (opc - op::PUSH1) as usize + 2 {
                let v: usize = instr[1..].iter().fold(0usize, |a, b| (a << 8) | *b as usize);
                if v > run_start {
                    let nv = if v < run_start + count { run_start } else { v - removed };
                    if opc == op::PUSH1 {
                        instr[1] = nv as u8;
                    } else {
                        instr[1] = (nv >> 8) as u8;
                        instr[2] = (nv & 0xff) as u8;
                    }
                }
            }
            cand.push(instr);
        }
        let bytes = join(&cand);
        spent += 1;
        if !bytes.is_empty() && fails(&bytes) {
            best = bytes;
        } else {
            break;
        }
    }

    // Phase 3: truncate the tail.
    let mut ins = split(&best);
    while ins.len() > 1 && spent < budget {
        let cand = join(&ins[..ins.len() - 1]);
        spent += 1;
        if fails(&cand) {
            ins.pop();
            best = cand;
        } else {
            break;
        }
    }
    best
}
