//! Program generators (swarm style). Every generator is a pure function of
//! the `Rng` it is given.

use ethnum::U256;

use crate::{
    asm::{keccak_word, op, Asm, Label},
    rng::Rng,
    sim::Knobs,
};

// ---------------------------------------------------------------------------
// Constants
// ---------------------------------------------------------------------------

pub fn mask(bits: u32) -> U256 {
    if bits >= 256 {
        U256::MAX
    } else {
        (U256::ONE << bits) - U256::ONE
    }
}

/// The boundary constants of C01's quantifier.
pub fn boundary_constant(r: &mut Rng) -> U256 {
    match r.below(22) {
        0 => U256::ZERO,
        1 => U256::ONE,
        2 => U256::from(32u32),
        3 => U256::from(31u32),
        4 => U256::from(33u32),
        5 => U256::from(255u32),
        6 => U256::from(256u32),
        7 => U256::from(257u32),
        8 => U256::from(u64::MAX),
        9 => U256::from(u64::MAX) - U256::from(r.below(300)),
        10 => U256::ONE << 255,
        11 => U256::MAX,
        12 => U256::MAX - U256::from(r.below(300)),
        13 => {
            let k = r.range(1, 255) as u32;
            U256::ONE << k
        }
        14 => {
            let k = r.range(1, 255) as u32;
            (U256::ONE << k) - U256::ONE
        }
        15 => {
            let k = r.range(1, 255) as u32;
            (U256::ONE << k) + U256::ONE
        }
        16 => keccak_word(U256::from(r.below(4))),
        17 => mask(160),
        18 => !mask(160),
        19 => U256::from(u32::MAX) + U256::from(r.below(3)),
        20 => U256::from(1u64 << 56) - U256::from(r.below(4)),
        _ => U256::from(r.below(1 << 16)),
    }
}

fn small_or_boundary(r: &mut Rng) -> U256 {
    if r.chance(2, 3) {
        U256::from(r.below(130))
    } else {
        boundary_constant(r)
    }
}

// ---------------------------------------------------------------------------
// W-bytes
// ---------------------------------------------------------------------------

pub fn gen_bytes(r: &mut Rng) -> Vec<u8> {
    let cap = if r.chance(1, 4) { 600 } else { 80 };
    let n = 1 + r.usize_below(cap);
    let mut v = r.bytes(n);
    if r.chance(1, 3) {
        // Bias towards assigned opcodes.
        for b in &mut v {
            if r.chance(1, 2) {
                *b = *r.pick(&[
                    op::PUSH1, op::PUSH0, op::DUP1, op::SWAP1, op::ADD, op::SLOAD, op::SSTORE, op::MSTORE,
                    op::MLOAD, op::JUMPDEST, op::JUMPI, op::JUMP, op::SHA3, op::AND, op::SHL, op::SHR,
                    op::CALLDATALOAD, op::CALLDATACOPY, op::CODECOPY, op::PUSH32, 0x61, 0x7e,
                ]);
            }
        }
    }
    if r.chance(1, 5) {
        // End on a truncated PUSH.
        v.push(op::PUSH1 + r.below(32) as u8);
        let k = r.usize_below(4);
        v.extend(r.bytes(k));
    }
    v
}

// ---------------------------------------------------------------------------
// W-stack: stack-aware instruction sequences
// ---------------------------------------------------------------------------

#[derive(Copy, Clone)]
struct OpSpec {
    byte:   u8,
    pops:   usize,
    pushes: usize,
    group:  u32,
}

const G_ALU: u32 = 1;
const G_CMP: u32 = 2;
const G_BIT: u32 = 4;
const G_SHA: u32 = 8;
const G_ENV: u32 = 16;
const G_MEM: u32 = 32;
const G_STO: u32 = 64;
const G_COPY: u32 = 128;
const G_CALL: u32 = 256;
const G_LOG: u32 = 512;
const G_FLOW: u32 = 1024;
const G_ALL: u32 = 2047;

const OPS: &[OpSpec] = &[
    OpSpec { byte: op::ADD, pops: 2, pushes: 1, group: G_ALU },
    OpSpec { byte: op::MUL, pops: 2, pushes: 1, group: G_ALU },
    OpSpec { byte: op::SUB, pops: 2, pushes: 1, group: G_ALU },
    OpSpec { byte: op::DIV, pops: 2, pushes: 1, group: G_ALU },
    OpSpec { byte: op::SDIV, pops: 2, pushes: 1, group: G_ALU },
    OpSpec { byte: op::MOD, pops: 2, pushes: 1, group: G_ALU },
    OpSpec { byte: op::SMOD, pops: 2, pushes: 1, group: G_ALU },
    OpSpec { byte: op::ADDMOD, pops: 3, pushes: 1, group: G_ALU },
    OpSpec { byte: op::MULMOD, pops: 3, pushes: 1, group: G_ALU },
    OpSpec { byte: op::EXP, pops: 2, pushes: 1, group: G_ALU },
    OpSpec { byte: op::SIGNEXTEND, pops: 2, pushes: 1, group: G_ALU },
    OpSpec { byte: op::LT, pops: 2, pushes: 1, group: G_CMP },
    OpSpec { byte: op::GT, pops: 2, pushes: 1, group: G_CMP },
    OpSpec { byte: op::SLT, pops: 2, pushes: 1, group: G_CMP },
    OpSpec { byte: op::SGT, pops: 2, pushes: 1, group: G_CMP },
    OpSpec { byte: op::EQ, pops: 2, pushes: 1, group: G_CMP },
    OpSpec { byte: op::ISZERO, pops: 1, pushes: 1, group: G_CMP },
    OpSpec { byte: op::AND, pops: 2, pushes: 1, group: G_BIT },
    OpSpec { byte: op::OR, pops: 2, pushes: 1, group: G_BIT },
    OpSpec { byte: op::XOR, pops: 2, pushes: 1, group: G_BIT },
    OpSpec { byte: op::NOT, pops: 1, pushes: 1, group: G_BIT },
    OpSpec { byte: op::BYTE, pops: 2, pushes: 1, group: G_BIT },
    OpSpec { byte: op::SHL, pops: 2, pushes: 1, group: G_BIT },
    OpSpec { byte: op::SHR, pops: 2, pushes: 1, group: G_BIT },
    OpSpec { byte: op::SAR, pops: 2, pushes: 1, group: G_BIT },
    OpSpec { byte: op::SHA3, pops: 2, pushes: 1, group: G_SHA },
    OpSpec { byte: op::ADDRESS, pops: 0, pushes: 1, group: G_ENV },
    OpSpec { byte: op::BALANCE, pops: 1, pushes: 1, group: G_ENV },
    OpSpec { byte: op::ORIGIN, pops: 0, pushes: 1, group: G_ENV },
    OpSpec { byte: op::CALLER, pops: 0, pushes: 1, group: G_ENV },
    OpSpec { byte: op::CALLVALUE, pops: 0, pushes: 1, group: G_ENV },
    OpSpec { byte: op::CALLDATALOAD, pops: 1, pushes: 1, group: G_ENV },
    OpSpec { byte: op::CALLDATASIZE, pops: 0, pushes: 1, group: G_ENV },
    OpSpec { byte: op::CODESIZE, pops: 0, pushes: 1, group: G_ENV },
    OpSpec { byte: op::GASPRICE, pops: 0, pushes: 1, group: G_ENV },
    OpSpec { byte: op::EXTCODESIZE, pops: 1, pushes: 1, group: G_ENV },
    OpSpec { byte: op::RETURNDATASIZE, pops: 0, pushes: 1, group: G_ENV },
    OpSpec { byte: op::EXTCODEHASH, pops: 1, pushes: 1, group: G_ENV },
    OpSpec { byte: op::BLOCKHASH, pops: 1, pushes: 1, group: G_ENV },
    OpSpec { byte: op::COINBASE, pops: 0, pushes: 1, group: G_ENV },
    OpSpec { byte: op::TIMESTAMP, pops: 0, pushes: 1, group: G_ENV },
    OpSpec { byte: op::NUMBER, pops: 0, pushes: 1, group: G_ENV },
    OpSpec { byte: op::PREVRANDAO, pops: 0, pushes: 1, group: G_ENV },
    OpSpec { byte: op::GASLIMIT, pops: 0, pushes: 1, group: G_ENV },
    OpSpec { byte: op::CHAINID, pops: 0, pushes: 1, group: G_ENV },
    OpSpec { byte: op::SELFBALANCE, pops: 0, pushes: 1, group: G_ENV },
    OpSpec { byte: op::BASEFEE, pops: 0, pushes: 1, group: G_ENV },
    OpSpec { byte: op::PC, pops: 0, pushes: 1, group: G_ENV },
    OpSpec { byte: op::MSIZE, pops: 0, pushes: 1, group: G_ENV },
    OpSpec { byte: op::GAS, pops: 0, pushes: 1, group: G_ENV },
    OpSpec { byte: op::POP, pops: 1, pushes: 0, group: G_MEM },
    OpSpec { byte: op::MLOAD, pops: 1, pushes: 1, group: G_MEM },
    OpSpec { byte: op::MSTORE, pops: 2, pushes: 0, group: G_MEM },
    OpSpec { byte: op::MSTORE8, pops: 2, pushes: 0, group: G_MEM },
    OpSpec { byte: op::SLOAD, pops: 1, pushes: 1, group: G_STO },
    OpSpec { byte: op::SSTORE, pops: 2, pushes: 0, group: G_STO },
    OpSpec { byte: op::CALLDATACOPY, pops: 3, pushes: 0, group: G_COPY },
    OpSpec { byte: op::CODECOPY, pops: 3, pushes: 0, group: G_COPY },
    OpSpec { byte: op::EXTCODECOPY, pops: 4, pushes: 0, group: G_COPY },
    OpSpec { byte: op::RETURNDATACOPY, pops: 3, pushes: 0, group: G_COPY },
    OpSpec { byte: op::CREATE, pops: 3, pushes: 1, group: G_CALL },
    OpSpec { byte: op::CREATE2, pops: 4, pushes: 1, group: G_CALL },
    OpSpec { byte: op::CALL, pops: 7, pushes: 1, group: G_CALL },
    OpSpec { byte: op::CALLCODE, pops: 7, pushes: 1, group: G_CALL },
    OpSpec { byte: op::DELEGATECALL, pops: 6, pushes: 1, group: G_CALL },
    OpSpec { byte: op::STATICCALL, pops: 6, pushes: 1, group: G_CALL },
    OpSpec { byte: op::LOG0, pops: 2, pushes: 0, group: G_LOG },
    OpSpec { byte: op::LOG0 + 1, pops: 3, pushes: 0, group: G_LOG },
    OpSpec { byte: op::LOG0 + 2, pops: 4, pushes: 0, group: G_LOG },
    OpSpec { byte: op::LOG0 + 3, pops: 5, pushes: 0, group: G_LOG },
    OpSpec { byte: op::LOG0 + 4, pops: 6, pushes: 0, group: G_LOG },
];

/// Stack-aware random program. `hostile` biases constants to the boundary
/// set; otherwise small constants dominate so that more of the program
/// survives into the type checker.
pub fn gen_stack(r: &mut Rng, hostile: bool) -> Vec<u8> {
    let mut a = Asm::new();
    let groups = if r.chance(1, 3) { G_ALL } else { (r.next() as u32 & G_ALL) | G_STO | G_BIT };
    let ops: Vec<&OpSpec> = OPS.iter().filter(|o| o.group & groups != 0).collect();
    let n_labels = if groups & G_FLOW != 0 { r.usize_below(5) } else { 0 };
    let labels: Vec<Label> = (0..n_labels).map(|_| a.new_label()).collect();
    let mut placed = vec![false; n_labels];
    let cap = if r.chance(1, 5) { 120 } else { 40 };
    let len = 3 + r.usize_below(cap);
    let mut depth: usize = 0;
    for _ in 0..len {
        let roll = r.below(100);
        if depth < 2 || roll < 38 {
            // push a constant
            let c = if hostile && r.chance(1, 2) {
                boundary_constant(r)
            } else {
                small_or_boundary(r)
            };
            if r.chance(1, 12) {
                a.push_n(1 + r.usize_below(32), c);
            } else {
                a.push(c);
            }
            depth += 1;
        } else if roll < 46 && depth >= 1 {
            let n = 1 + r.usize_below(depth.min(16));
            a.dup(n);
            depth += 1;
        } else if roll < 52 && depth >= 2 {
            let n = 1 + r.usize_below((depth - 1).min(16));
            a.swap(n);
        } else if roll < 58 && n_labels > 0 {
            let ix = r.usize_below(n_labels);
            if !placed[ix] && r.chance(1, 2) {
                a.place(labels[ix]);
                placed[ix] = true;
            } else if depth >= 1 && r.chance(2, 3) {
                a.jumpi_to(labels[ix]);
                depth -= 1;
            } else if r.chance(1, 6) {
                a.jump_to(labels[ix]);
            }
        } else {
            let o = **r.pick(&ops);
            if o.pops <= depth {
                a.op(o.byte);
                depth = depth - o.pops + o.pushes;
            } else {
                a.push(small_or_boundary(r));
                depth += 1;
            }
        }
        if depth > 900 {
            a.op(op::POP);
            depth -= 1;
        }
    }
    for (ix, l) in labels.iter().enumerate() {
        if !placed[ix] && r.chance(3, 4) {
            a.place(*l);
        }
    }
    // Make what is left on the stack visible to the type checker.
    let mut slot = r.below(4);
    while depth > 0 && r.chance(3, 4) {
        a.push_u(u128::from(slot));
        a.op(op::SSTORE);
        slot += 1;
        depth -= 1;
    }
    a.op(*r.pick(&[op::STOP, op::STOP, op::RETURN, op::REVERT, op::INVALID, op::SELFDESTRUCT]));
    a.finish()
}

// ---------------------------------------------------------------------------
// W-storage: the idioms the type checker reacts to
// ---------------------------------------------------------------------------

/// Pushes a value with a recognisable "type" onto the stack. Net +1.
fn typed_value(a: &mut Asm, r: &mut Rng) {
    match r.below(19) {
        16 | 17 => {
            // the current value of a (small) slot: creates evidence cycles
            // between slots, arrays and mappings
            a.push_u(r.below(6) as u128).op(op::SLOAD);
        }
        18 => {
            // an element of the array at a small slot
            let s = r.below(4);
            a.push(keccak_word(U256::from(s))).push_u(r.below(3) as u128).op(op::ADD).op(op::SLOAD);
        }
        0 => {
            a.op(op::CALLER);
        }
        1 => {
            a.op(op::ADDRESS);
        }
        2 => {
            // bool
            a.push_u(r.below(64) as u128).op(op::CALLDATALOAD).op(op::ISZERO);
        }
        3 => {
            a.push_u(4).op(op::CALLDATALOAD);
        }
        4 => {
            // address-masked call data
            a.push_u(4).op(op::CALLDATALOAD).push(mask(160)).op(op::AND);
        }
        5 => {
            a.op(op::TIMESTAMP);
        }
        6 => {
            // signed: result of SDIV
            a.push_u(4).op(op::CALLDATALOAD).push_u(36).op(op::CALLDATALOAD).op(op::SDIV);
        }
        7 => {
            // sign-extended
            a.push_u(4).op(op::CALLDATALOAD).push_u(r.below(31) as u128).op(op::SIGNEXTEND);
        }
        8 => {
            // selector: calldataload(0) >> 224
            a.op(op::PUSH0).op(op::CALLDATALOAD).push_u(224).op(op::SHR);
        }
        9 => {
            a.push_u(r.below(200) as u128);
        }
        10 => {
            // small mask (uintN)
            let bits = *r.pick(&[8u32, 16, 32, 64, 96, 128, 192, 248]);
            a.push_u(4).op(op::CALLDATALOAD).push(mask(bits)).op(op::AND);
        }
        11 => {
            a.op(op::CALLVALUE);
        }
        12 => {
            a.op(op::NUMBER).push_u(1).op(op::ADD);
        }
        13 => {
            // comparison result
            a.push_u(4).op(op::CALLDATALOAD).op(op::TIMESTAMP).op(op::LT);
        }
        14 => {
            a.op(op::ORIGIN);
        }
        _ => {
            a.op(op::CALLDATASIZE);
        }
    }
}

/// Pushes `keccak(key ‖ slot)` for a mapping at the slot on top of the stack.
/// Stack: [.., slot] -> [.., hash]. `key` is produced by `typed_value`.
fn mapping_hash(a: &mut Asm, r: &mut Rng) {
    mapping_hash_field(a, r, false);
}

/// As `mapping_hash`; with `force_field` the access always goes to a field
/// (a small constant added to the hash).
fn mapping_hash_field(a: &mut Asm, r: &mut Rng, force_field: bool) {
    // mstore(0x20, slot)
    a.push_u(0x20).op(op::MSTORE);
    // mstore(0, key)
    typed_value(a, r);
    a.op(op::PUSH0).op(op::MSTORE);
    a.push_u(0x40).op(op::PUSH0).op(op::SHA3);
    if force_field || r.chance(1, 4) {
        // a field of a struct-valued mapping: keccak(key ‖ slot) + n; the
        // constant is attacker-chosen, so now and then an absurd one
        if !force_field && r.chance(1, 6) {
            a.push(boundary_constant(r)).op(op::ADD);
        } else {
            a.push_u(1 + r.below(3) as u128).op(op::ADD);
        }
        // ... and a field of a struct inside that struct: one or two more
        // constants added (only the first is folded into the projection);
        // pairs that only overflow together now and then
        if !force_field && r.chance(1, 3) {
            let n = if r.chance(1, 4) { 2 } else { 1 };
            for _ in 0..n {
                match r.below(6) {
                    0 => a.push(U256::ONE << 63),
                    1 => a.push(U256::from(u64::MAX) - U256::from(r.below(3))),
                    2 => a.push(U256::MAX - U256::from(r.below(3))),
                    3 => a.push(boundary_constant(r)),
                    _ => a.push_u(1 + r.below(3) as u128),
                };
                a.op(op::ADD);
            }
        }
    }
}

/// Stack: [.., slot] -> [.., keccak(slot) + index].
fn array_hash(a: &mut Asm, r: &mut Rng, slot_const: Option<U256>) {
    match slot_const {
        Some(s) if r.chance(1, 3) => {
            // The compiler's pre-folded form: PUSH32 keccak(slot).
            a.op(op::POP);
            a.push(keccak_word(s));
        }
        Some(s) if s == U256::ZERO && r.chance(1, 3) => {
            // slot 0 hashed straight out of memory that was never written
            // (it reads as zero), instead of being stored there first
            a.op(op::POP);
            a.push_u(0x20).op(op::PUSH0).op(op::SHA3);
        }
        _ => {
            a.op(op::PUSH0).op(op::MSTORE);
            a.push_u(0x20).op(op::PUSH0).op(op::SHA3);
        }
    }
    match r.below(13) {
        0..=3 => {
            a.push_u(r.below(5) as u128);
        }
        4..=7 => {
            a.push_u(4).op(op::CALLDATALOAD);
        }
        8..=11 => {
            a.push_u(36).op(op::CALLDATALOAD);
        }
        _ => {
            a.push(boundary_constant(r));
        }
    }
    a.op(op::ADD);
}

/// Uses the value on top of the stack in a way that tells the type checker
/// something. Net -1.
fn typed_use(a: &mut Asm, r: &mut Rng, scratch_slot: U256) {
    match r.below(16) {
        14 | 15 => {
            // parked in memory at a constant offset (it becomes a top-level
            // value collected from the memory map)
            a.push_u(0x80 + 0x20 * r.below(6) as u128).op(op::MSTORE);
        }
        12 => {
            // bounds check against a constant
            a.push_u(1 + r.below(200) as u128).op(if r.chance(1, 2) { op::LT } else { op::GT }).op(op::POP);
        }
        13 => {
            // signed comparison against a constant
            a.push_u(r.below(9) as u128).op(if r.chance(1, 2) { op::SLT } else { op::SGT }).op(op::POP);
        }
        0 => {
            // as address: mask and store elsewhere
            a.push(mask(160)).op(op::AND);
            a.push(scratch_slot).op(op::SSTORE);
        }
        1 => {
            // as bool
            a.op(op::ISZERO).op(op::ISZERO);
            a.push(scratch_slot).op(op::SSTORE);
        }
        2 => {
            // arithmetic
            a.push_u(1).op(op::ADD);
            a.push(scratch_slot).op(op::SSTORE);
        }
        3 => {
            // signed comparison
            a.op(op::PUSH0).op(op::SLT).op(op::POP);
        }
        4 => {
            // unsigned comparison against a length-like bound
            a.push_u(4).op(op::CALLDATALOAD).op(op::LT).op(op::POP);
        }
        5 => {
            // plain copy into another slot
            a.push(scratch_slot).op(op::SSTORE);
        }
        6 => {
            // as call target
            // call(gas, addr, value, in, insize, out, outsize)
            a.op(op::PUSH0).op(op::PUSH0).op(op::PUSH0).op(op::PUSH0).op(op::PUSH0);
            a.dup(6).op(op::GAS).op(op::CALL).op(op::POP).op(op::POP);
        }
        7 => {
            // shifted extract: (v >> k) & mask
            let k = *r.pick(&[8u32, 16, 32, 64, 128, 160, 200]);
            let w = *r.pick(&[8u32, 16, 32, 64, 96]);
            if r.chance(1, 3) {
                // the older compiler idiom: divide by a power of two
                a.push(U256::ONE << k).swap(1).op(op::DIV);
            } else {
                a.push_u(u128::from(k)).op(op::SHR);
            }
            a.push(mask(w)).op(op::AND);
            a.push(scratch_slot).op(op::SSTORE);
        }
        8 => {
            // byte-level mask in the middle of the word
            let lo = 8 * r.below(20) as u32;
            let w = 8 * (1 + r.below(8)) as u32;
            a.push(mask(w) << lo).op(op::AND);
            a.push(scratch_slot).op(op::SSTORE);
        }
        9 => {
            // equality with caller
            a.op(op::CALLER).op(op::EQ).op(op::POP);
        }
        10 => {
            // selector
            a.push_u(224).op(op::SHR).push(mask(32)).op(op::AND);
            a.push(scratch_slot).op(op::SSTORE);
        }
        _ => {
            a.op(op::POP);
        }
    }
}

/// One storage fragment on slot `s`; stack-neutral.
fn storage_fragment(a: &mut Asm, r: &mut Rng, s: U256, slots: &[U256]) {
    let other = *r.pick(slots);
    match r.below(30) {
        29 => {
            // an array reached only through the literal hash of its slot
            // (the compiler's pre-folded form), while the slot number itself
            // occurs only as a *value*, stored under a key that is not a
            // constant: whether the analysis has met the number before it
            // meets the hash is then a matter of iteration order
            let k = if r.chance(1, 2) { U256::from(r.below(300)) } else { U256::from(r.below(10_000)) };
            typed_value(a, r);
            a.push(keccak_word(k)).push_u(r.below(64) as u128).op(op::CALLDATALOAD).op(op::ADD).op(op::SSTORE);
            a.push(k).push_u(64 + r.below(64) as u128).op(op::CALLDATALOAD).op(op::SSTORE);
        }
        28 => {
            // one struct-valued mapping reached at two (or three) of its
            // members under the same key; the member offsets are constants in
            // the bytecode, so now and then absurd ones
            let n = if r.chance(1, 4) { 3 } else { 2 };
            for _ in 0..n {
                typed_value(a, r);
                a.push(s).push_u(0x20).op(op::MSTORE);
                a.op(op::CALLER).op(op::PUSH0).op(op::MSTORE);
                a.push_u(0x40).op(op::PUSH0).op(op::SHA3);
                let member: U256 = match r.below(8) {
                    0 => (U256::ONE << 56) - U256::from(1 + r.below(2)),
                    1 => U256::from(u32::MAX) + U256::from(r.below(2)),
                    2 => (U256::ONE << 24) - U256::ONE,
                    3 => boundary_constant(r),
                    _ => U256::from(r.below(4)),
                };
                if member != U256::ZERO {
                    a.push(member).op(op::ADD);
                }
                a.op(op::SSTORE);
            }
        }
        26 => {
            // a comparison result kept in a slot and also used as a number
            // (or a number also used as a condition): two rules type the one
            // value differently, in whichever order the value table is walked
            typed_value(a, r);
            match r.below(4) {
                0 => a.op(op::ISZERO),
                1 => a.push_u(r.below(100) as u128).op(op::LT),
                2 => a.op(op::CALLER).op(op::EQ),
                _ => a.push_u(r.below(100) as u128).op(op::SGT),
            };
            a.dup(1).push(s).op(op::SSTORE);
            match r.below(4) {
                0 => a.push_u(1).op(op::ADD),
                1 => a.push_u(3).op(op::MUL),
                2 => a.op(op::ISZERO),
                _ => a.push_u(1).swap(1).op(op::SUB),
            };
            a.push(other).op(op::SSTORE);
        }
        27 => {
            // overlapping constant-offset writes to memory and a hashed slice
            // that starts between them, at an offset nothing was written to
            let base = 0x200 + 0x80 * r.below(6) as u128;
            let d1 = 1 + r.below(31) as u128;
            let d2 = d1 + 1 + r.below(31 - (d1 as u64 % 31)) as u128;
            typed_value(a, r);
            a.push_u(base).op(op::MSTORE);
            typed_value(a, r);
            a.push_u(base + d1).op(op::MSTORE);
            if r.chance(1, 2) {
                typed_value(a, r);
                a.push_u(base + 0x20 + d1 + r.below(16) as u128).op(op::MSTORE);
            }
            // the slot word of the mapping idiom, further up
            a.push(s).push_u(base + d2 + 0x20).op(op::MSTORE);
            a.push_u(0x40).push_u(base + d2).op(op::SHA3);
            if r.chance(1, 2) {
                a.op(op::SLOAD);
                typed_use(a, r, other);
            } else {
                typed_value(a, r);
                a.swap(1).op(op::SSTORE);
            }
        }
        25 => {
            // the same element of the array at slot 0 read twice through
            // keccak(mem[m..m+32]) + x: once while that memory was never
            // written (it reads as zero), once after a zero was stored there;
            // both results parked in memory
            let m = 0x400 + 0x40 * r.below(8) as u128;
            let x = r.below(4) as u128;
            a.push_u(0x20).push_u(m).op(op::SHA3).push_u(x).op(op::ADD).op(op::SLOAD);
            a.push_u(0x80 + 0x20 * r.below(4) as u128).op(op::MSTORE);
            a.op(op::PUSH0).push_u(m).op(op::MSTORE);
            a.push_u(0x20).push_u(m).op(op::SHA3).push_u(x).op(op::ADD).op(op::SLOAD);
            a.push_u(0x100 + 0x20 * r.below(4) as u128).op(op::MSTORE);
        }
        23 => {
            // the same small slot written through two different computed keys
            // (the VM does not fold storage keys) with different kinds of
            // value, then read through the literal key
            let k = 2 + r.below(5) as u128;
            let x = 1 + r.below(k as u64 - 1) as u128;
            typed_value(a, r);
            a.push_u(x).push_u(k - x).op(op::ADD).op(op::SSTORE);
            typed_value(a, r);
            a.push_u(1).push_u(k + 1).op(op::SUB).op(op::SSTORE);
            a.push_u(k).op(op::SLOAD);
            typed_use(a, r, other);
        }
        24 => {
            // a hash over an empty, odd-sized or multi-word region used as
            // the base of a storage key
            let size = *r.pick(&[0u128, 0, 1, 31, 33, 64, 96]);
            a.push_u(size).push_u(*r.pick(&[0u128, 0, 0x20, 0x1f])).op(op::SHA3);
            if r.chance(2, 3) {
                a.push_u(r.below(3) as u128).op(op::ADD);
            }
            if r.chance(1, 2) {
                a.op(op::SLOAD);
                typed_use(a, r, other);
            } else {
                typed_value(a, r);
                a.swap(1).op(op::SSTORE);
            }
        }
        20 => {
            // proxy-slot idiom, ABI-encoded: keccak(abi.encode("text")) with
            // the pointer word, a length word (right, zero or wrong) and data
            let text: &[u8] = *r.pick(&[&b"eip1967.proxy.implementation"[..], &b"my.slot"[..], &b"a"[..]]);
            let mut word = [0u8; 32];
            word[..text.len()].copy_from_slice(text);
            let len = match r.below(4) {
                0 => 0,
                1 => text.len() as u128 + 1,
                _ => text.len() as u128,
            };
            a.push_u(0x20).op(op::PUSH0).op(op::MSTORE);
            a.push_u(len).push_u(0x20).op(op::MSTORE);
            a.push(U256::from_be_bytes(word)).push_u(0x40).op(op::MSTORE);
            a.push_u(0x60).op(op::PUSH0).op(op::SHA3);
            if r.chance(1, 2) {
                a.op(op::SLOAD);
                typed_use(a, r, other);
            } else {
                typed_value(a, r);
                a.swap(1).op(op::SSTORE);
            }
        }
        21 => {
            // a field extracted by dividing by a shifted power of two:
            // (x / (2^n << s)) & mask, the shift now and then absurd
            a.push(s).op(op::SLOAD);
            if r.chance(1, 4) {
                // a literal divisor that is not a shifted power of two at all
                a.push(*r.pick(&[U256::ZERO, U256::ONE, U256::from(3u32), U256::from(10u32), U256::from(40u32), U256::MAX]));
            } else {
                let n = r.below(4) as u32;
                a.push(U256::ONE << n);
                if r.chance(1, 4) {
                    a.push(boundary_constant(r));
                } else {
                    a.push_u(8 * r.below(24) as u128);
                }
                a.op(op::SHL);
            }
            a.swap(1).op(op::DIV);
            a.push(mask(*r.pick(&[8u32, 32, 64, 160]))).op(op::AND);
            a.push(other).op(op::SSTORE);
        }
        22 => {
            // the short-string slot layout (flag bit, 7 length bits, 248 data
            // bits) written in one store, its parts also kept elsewhere, the
            // slot also used as the base of its long form
            // (the masked fields themselves are what is kept elsewhere, so
            // they are values shared between several top-level values)
            typed_value(a, r);
            a.push_u(1).op(op::AND);
            a.dup(1).push(*r.pick(slots)).op(op::SSTORE);
            typed_value(a, r);
            a.push_u(0x7f).op(op::AND);
            a.dup(1).push(*r.pick(slots)).op(op::SSTORE);
            // (fields are moved into place by multiplication: that is the
            // form the library lifts into a packed encoding)
            a.push_u(2).op(op::MUL).op(op::OR);
            if r.chance(1, 2) {
                typed_value(a, r);
                a.push(mask(248)).op(op::AND).push_u(256).op(op::MUL).op(op::OR);
            }
            a.push(s).op(op::SSTORE);
            a.push(s);
            array_hash(a, r, None);
            a.op(op::SLOAD).op(op::POP);
        }
        17 => {
            // proxy-slot idiom: the slot is the hash of an ASCII string held
            // in memory, optionally minus one (added as 2^256 - 1)
            let text: &[u8] = *r.pick(&[
                &b"eip1967.proxy.implementation"[..],
                &b"eip1967.proxy.admin"[..],
                &b"org.zeppelinos.proxy.owner"[..],
                &b"some.storage.slot.name.v1"[..],
            ]);
            let mut word = [0u8; 32];
            word[..text.len()].copy_from_slice(text);
            a.push(U256::from_be_bytes(word)).op(op::PUSH0).op(op::MSTORE);
            a.push_u(0x20).op(op::PUSH0).op(op::SHA3);
            if r.chance(1, 2) {
                a.push(U256::MAX).op(op::ADD);
            }
            if r.chance(1, 2) {
                a.op(op::SLOAD);
                typed_use(a, r, other);
            } else {
                typed_value(a, r);
                a.swap(1).op(op::SSTORE);
            }
        }
        18 => {
            // mapping of mapping of mapping (of mapping)
            a.push(s);
            let depth = 3 + r.usize_below(2);
            for _ in 0..depth {
                mapping_hash(a, r);
            }
            if r.chance(1, 2) {
                a.op(op::SLOAD);
                typed_use(a, r, other);
            } else {
                typed_value(a, r);
                a.swap(1).op(op::SSTORE);
            }
        }
        19 => {
            // a dynamic array of two-word structs held in a mapping:
            // keccak(keccak(key ‖ slot)) + 2*i + field
            a.push(s);
            mapping_hash_field(a, r, false);
            a.op(op::PUSH0).op(op::MSTORE).push_u(0x20).op(op::PUSH0).op(op::SHA3);
            a.push_u(36).op(op::CALLDATALOAD).push_u(2).op(op::MUL).op(op::ADD);
            a.push_u(r.below(2) as u128).op(op::ADD);
            if r.chance(1, 2) {
                a.op(op::SLOAD);
                typed_use(a, r, other);
            } else {
                typed_value(a, r);
                a.swap(1).op(op::SSTORE);
            }
        }
        16 => {
            // the value of one slot stored into a field of a struct-valued
            // mapping at another slot, while the first slot is also read as a
            // field at a non-zero bit offset: the first slot's type is then
            // reached both on its own and nested inside the second's
            a.push(other).op(op::SLOAD);
            a.push(s);
            mapping_hash_field(a, r, true);
            a.op(op::SSTORE);
            let k = *r.pick(&[64u32, 128, 160, 192]);
            let w = *r.pick(&[8u32, 32, 64]);
            a.push(other).op(op::SLOAD).push_u(u128::from(k)).op(op::SHR).push(mask(w)).op(op::AND);
            if r.chance(1, 2) {
                a.op(op::POP);
            } else {
                a.push(*r.pick(slots)).op(op::SSTORE);
            }
        }
        14 => {
            // one loaded value used both in an unsigned bounds check against a
            // constant and in a signed comparison, each result kept
            a.push(s).op(op::SLOAD);
            a.dup(1).push_u(1 + r.below(100) as u128).op(if r.chance(1, 2) { op::LT } else { op::GT });
            a.push(other).op(op::SSTORE);
            a.push_u(r.below(9) as u128).op(if r.chance(1, 2) { op::SLT } else { op::SGT });
            a.push(*r.pick(slots)).op(op::SSTORE);
        }
        15 => {
            // a slot used directly and as the base of an array whose data
            // slot is the literal keccak(slot)
            typed_value(a, r);
            a.push(s).op(op::SSTORE);
            a.push(keccak_word(s)).push_u(r.below(3) as u128).op(op::ADD).op(op::SLOAD);
            typed_use(a, r, other);
        }
        0 | 1 => {
            // direct write
            typed_value(a, r);
            a.push(s).op(op::SSTORE);
        }
        2 | 3 => {
            // direct read + use
            a.push(s).op(op::SLOAD);
            typed_use(a, r, other);
        }
        4 => {
            // dynamic array element write
            typed_value(a, r);
            a.push(s);
            array_hash(a, r, Some(s));
            a.op(op::SSTORE);
        }
        5 => {
            // dynamic array element read
            a.push(s);
            array_hash(a, r, Some(s));
            a.op(op::SLOAD);
            typed_use(a, r, other);
        }
        6 => {
            // mapping write
            typed_value(a, r);
            a.push(s);
            mapping_hash(a, r);
            a.op(op::SSTORE);
        }
        7 => {
            // mapping read
            a.push(s);
            mapping_hash(a, r);
            a.op(op::SLOAD);
            typed_use(a, r, other);
        }
        8 => {
            // nested mapping read/write
            a.push(s);
            mapping_hash(a, r);
            mapping_hash(a, r);
            if r.chance(1, 2) {
                a.op(op::SLOAD);
                typed_use(a, r, other);
            } else {
                typed_value(a, r);
                a.swap(1).op(op::SSTORE);
            }
        }
        9 => {
            // packed update: s = (s & ~(mask << k)) | ((v & mask) << k)
            let w = *r.pick(&[8u32, 16, 32, 64, 128, 160]);
            let k = *r.pick(&[0u32, 8, 16, 32, 64, 96, 160]);
            let k = if k + w > 256 { 0 } else { k };
            // One time in four the field is stored on its own.
            let alone = r.chance(1, 4);
            if !alone {
                a.push(s).op(op::SLOAD);
                a.push(!(mask(w) << k)).op(op::AND);
            }
            typed_value(a, r);
            // The mask usually sits at bit 0; now and then the field is cut
            // out higher up and moved from there (possibly out of the word).
            let b = if r.chance(1, 5) { *r.pick(&[8u32, 96, 104, 200, 255]) } else { 0 };
            let b = if b + w > 256 { 256 - w } else { b };
            a.push(mask(w) << b).op(op::AND);
            if k > 0 {
                // The move is made in one step, or in two or three (scaling a
                // field twice is what hand-written assembly and older
                // compilers do); each step multiplies by a power of two (the
                // form the library lifts into a packed encoding) or shifts.
                let steps = *r.pick(&[1u32, 1, 1, 2, 2, 3]);
                let mut left = k;
                for i in 0..steps {
                    let part = if i + 1 == steps { left } else { (left / 2).max(1).min(left) };
                    left -= part;
                    if part == 0 {
                        continue;
                    }
                    if r.chance(2, 3) {
                        a.push(U256::ONE << part).op(op::MUL);
                    } else {
                        a.push_u(u128::from(part)).op(op::SHL);
                    }
                }
            }
            if !alone {
                a.op(op::OR);
            }
            a.push(s).op(op::SSTORE);
        }
        10 => {
            // masked copy between slots
            let bits = *r.pick(&[160u32, 160, 8, 64, 128]);
            a.push(s).op(op::SLOAD).push(mask(bits)).op(op::AND);
            a.push(other).op(op::SSTORE);
        }
        11 => {
            // array length use: sload(s) as a bound
            a.push_u(4).op(op::CALLDATALOAD);
            a.push(s).op(op::SLOAD).op(op::GT).op(op::POP);
        }
        12 => {
            // read-mask-write cycle through another slot
            a.push(other).op(op::SLOAD).push(mask(160)).op(op::AND);
            a.push(s).op(op::SSTORE);
            a.push(s).op(op::SLOAD).push(mask(160)).op(op::AND);
            a.push(other).op(op::SSTORE);
        }
        _ => {
            // copy through memory
            a.push(s).op(op::SLOAD);
            a.push_u(0x80).op(op::MSTORE);
            a.push_u(0x80).op(op::MLOAD);
            typed_use(a, r, other);
        }
    }
}

/// Storage-idiom program: a dispatcher over `branches` bodies, each a few
/// fragments over a small set of slots – deliberately allowing inconsistent
/// uses of one slot, because schedule dependence only shows when one class
/// holds three or more pieces of evidence.
pub fn gen_storage(r: &mut Rng) -> Vec<u8> {
    let mut a = Asm::new();
    let n_slots = 1 + r.usize_below(3);
    let mut slots: Vec<U256> = Vec::new();
    while slots.len() < n_slots {
        let s = match r.below(24) {
            0..=18 => U256::from(r.below(6)),
            19 if r.chance(1, 2) => U256::from(r.below(40)),
            // anywhere among the 10 000 slots whose hashes the library knows
            19 => U256::from(40 + r.below(9_960)),
            // beyond the first 10 000 slots whose hashes the library knows
            20 => U256::from(10_000 + r.below(1 << 20)),
            21 if r.chance(1, 2) => U256::from(10_000 + r.below(50)),
            // EIP-1967 implementation / admin slots, and other large keys
            21 => U256::from_str_hex("0x360894a13ba1a3210667c828492db98dca3e2076cc3735a920a3ca505d382bbc").unwrap(),
            22 => U256::from_str_hex("0xb53127684a568b3173ae13b9f8a6016e243e63b6e8ee1178d6a717850b5d6103").unwrap(),
            _ => (U256::ONE << (64 + 8 * r.below(24) as u32)) + U256::from(r.below(3)),
        };
        if !slots.contains(&s) {
            slots.push(s);
        }
    }
    if r.chance(1, 10) {
        // a slot that only differs from another one in its high bits
        let base = *r.pick(&slots);
        let alias = base.wrapping_add(U256::ONE << *r.pick(&[64u32, 128, 248, 255]));
        if !slots.contains(&alias) {
            slots.push(alias);
        }
    }
    // Mostly a handful of dispatch branches; now and then a contract-sized
    // dispatcher (dozens of branches, a few thousand bytes, hundreds of values).
    let branches = match r.below(60) {
        0 => 20 + r.usize_below(30),
        1..=20 => 0,
        _ => 1 + r.usize_below(4),
    };
    if branches == 0 {
        let n = 2 + r.usize_below(6);
        for _ in 0..n {
            let s = *r.pick(&slots);
            storage_fragment(&mut a, r, s, &slots);
        }
        a.op(op::STOP);
        return a.finish();
    }
    // dispatcher
    let labels: Vec<Label> = (0..branches).map(|_| a.new_label()).collect();
    a.op(op::PUSH0).op(op::CALLDATALOAD).push_u(224).op(op::SHR);
    for (ix, l) in labels.iter().enumerate() {
        a.dup(1).push_u(0xa000_0000 + ix as u128).op(op::EQ).jumpi_to(*l);
    }
    a.op(op::STOP);
    for l in labels {
        a.place(l);
        let n = 1 + r.usize_below(4);
        for _ in 0..n {
            let s = *r.pick(&slots);
            storage_fragment(&mut a, r, s, &slots);
        }
        a.op(op::STOP);
    }
    a.finish()
}

// ---------------------------------------------------------------------------
// W-cfg: control-flow shapes
// ---------------------------------------------------------------------------

pub fn gen_cfg(r: &mut Rng) -> Vec<u8> {
    let mut a = Asm::new();
    match r.below(10) {
        8 | 9 => {
            // a loop head that is also forked to from elsewhere, several
            // times and from paths that are scheduled later: the fork budget
            // of one target is used up, revisited at the iteration limit, and
            // asked for again
            let t = a.new_label();
            let u = a.new_label();
            let v = a.new_label();
            if r.chance(1, 2) {
                a.push_u(4).op(op::CALLDATALOAD).jumpi_to(u);
            }
            let inner = a.new_label();
            let with_inner = r.chance(1, 2);
            if with_inner {
                // a destination in the middle of the loop body, first reached
                // by a fork from outside the loop and then by falling through
                a.push_u(68).op(op::CALLDATALOAD).jumpi_to(inner);
            }
            a.place(t);
            if r.chance(1, 2) {
                a.op(op::CALLER).push_u(r.below(3) as u128).op(op::SSTORE);
            }
            if with_inner {
                a.place(inner);
                a.op(op::TIMESTAMP).op(op::POP);
            }
            let back = 1 + r.usize_below(3);
            for i in 0..back {
                a.push_u(36 + 32 * i as u128).op(op::CALLDATALOAD).jumpi_to(t);
            }
            a.op(op::CALLDATASIZE).jumpi_to(u);
            a.op(op::STOP);
            a.place(u);
            a.op(op::CALLVALUE).jumpi_to(t);
            if r.chance(1, 2) {
                a.op(op::GAS).jumpi_to(v);
            }
            a.op(op::STOP);
            a.place(v);
            a.op(op::TIMESTAMP).jumpi_to(t);
            if r.chance(1, 2) {
                a.jump_to(u);
            } else {
                a.op(op::STOP);
            }
        }
        0 => {
            // tight loop on a symbolic condition
            let top = a.new_label();
            a.place(top);
            if r.chance(1, 2) {
                a.push_u(r.below(3) as u128).op(op::SLOAD).push_u(1).op(op::ADD);
                a.push_u(r.below(3) as u128).op(op::SSTORE);
            }
            a.op(op::CALLDATASIZE).jumpi_to(top);
            a.op(op::STOP);
        }
        1 => {
            // nested loops
            let outer = a.new_label();
            let inner = a.new_label();
            a.place(outer);
            a.place(inner);
            a.push_u(4).op(op::CALLDATALOAD).jumpi_to(inner);
            a.push_u(36).op(op::CALLDATALOAD).jumpi_to(outer);
            a.op(op::STOP);
        }
        2 => {
            // unconditional self-jump / back-jump
            let top = a.new_label();
            a.place(top);
            let k = r.usize_below(4);
            for _ in 0..k {
                a.op(op::CALLER).op(op::POP);
            }
            a.jump_to(top);
        }
        3 => {
            // loop whose body grows the stack
            let top = a.new_label();
            a.place(top);
            a.op(op::CALLER);
            if r.chance(1, 2) {
                a.dup(1).push_u(1).op(op::ADD);
            }
            a.op(op::CALLDATASIZE).jumpi_to(top);
            a.op(op::STOP);
        }
        4 => {
            // fork bomb: chain of JUMPIs to shared targets
            let n_t = 1 + r.usize_below(3);
            let targets: Vec<Label> = (0..n_t).map(|_| a.new_label()).collect();
            let n = 2 + r.usize_below(10);
            for i in 0..n {
                a.push_u(4 + 32 * i as u128).op(op::CALLDATALOAD);
                a.jumpi_to(*r.pick(&targets));
            }
            a.op(op::STOP);
            for t in targets {
                a.place(t);
                if r.chance(1, 2) {
                    a.op(op::CALLER).push_u(r.below(3) as u128).op(op::SSTORE);
                }
                if r.chance(1, 3) {
                    // and back into the chain
                    a.op(op::PUSH0).op(op::JUMP);
                } else {
                    a.op(op::STOP);
                }
            }
        }
        5 => {
            // jump table
            let n = 2 + r.usize_below(5);
            let ls: Vec<Label> = (0..n).map(|_| a.new_label()).collect();
            a.op(op::PUSH0).op(op::CALLDATALOAD).push_u(224).op(op::SHR);
            for (i, l) in ls.iter().enumerate() {
                a.dup(1).push_u(i as u128).op(op::EQ).jumpi_to(*l);
            }
            a.op(op::STOP);
            for (i, l) in ls.iter().enumerate() {
                a.place(*l);
                a.op(op::CALLER).push_u(i as u128 % 3).op(op::SSTORE);
                if r.chance(1, 4) {
                    a.jump_to(*r.pick(&ls));
                } else {
                    a.op(op::STOP);
                }
            }
        }
        6 => {
            // read-mask-write cycle in a loop
            let top = a.new_label();
            a.place(top);
            a.op(op::PUSH0).op(op::SLOAD).push(mask(160)).op(op::AND).push_u(1).op(op::SSTORE);
            a.push_u(1).op(op::SLOAD).push(mask(160)).op(op::AND).op(op::PUSH0).op(op::SSTORE);
            a.op(op::CALLDATASIZE).jumpi_to(top);
            a.op(op::STOP);
        }
        _ => {
            // loop with a copy inside
            let top = a.new_label();
            a.place(top);
            a.push_u(32 * (1 + r.below(8)) as u128).op(op::PUSH0).op(op::PUSH0).op(op::CALLDATACOPY);
            a.op(op::CALLDATASIZE).jumpi_to(top);
            a.op(op::STOP);
        }
    }
    let mut code = a.finish();
    if r.chance(1, 3) {
        // append a storage program behind it (reachable or not)
        code.extend(gen_storage(r));
    }
    code
}

// ---------------------------------------------------------------------------
// W-growth: straight-line chains that make one value grow (value-size
// limit, culling, memoised sizes, deep trees)
// ---------------------------------------------------------------------------

/// The ten places a grown value is put to use (`which` in 0..10).
pub const GROWTH_USES: u64 = 10;
fn growth_use(a: &mut Asm, r: &mut Rng, which: u64) {
    match which {
        5 => {
            // as the offset of a load
            a.op(op::MLOAD).push_u(r.below(4) as u128).op(op::SSTORE);
        }
        6 => {
            // as a copy size or offset
            if r.chance(1, 2) {
                a.op(op::PUSH0).op(op::PUSH0).op(op::CALLDATACOPY);
            } else {
                a.push_u(0x40).swap(1).op(op::PUSH0).op(op::CALLDATACOPY);
            }
        }
        7 => {
            // masked (on either side) and stored
            if r.chance(1, 2) {
                a.push(mask(160)).op(op::AND);
            } else {
                a.push(mask(160)).swap(1).op(op::AND);
            }
            a.push_u(r.below(4) as u128).op(op::SSTORE);
        }
        8 => {
            // scaled and stored
            a.push_u(0x100).op(op::MUL).push_u(r.below(4) as u128).op(op::SSTORE);
        }
        9 => {
            // as a jump target
            a.op(op::JUMP);
        }
        0 => {
            a.push_u(r.below(4) as u128).op(op::SSTORE);
        }
        1 => {
            // as a storage key
            a.op(op::CALLER).swap(1).op(op::SSTORE);
        }
        2 => {
            // as a memory offset, then hashed into a slot
            a.op(op::CALLER).swap(1).op(op::MSTORE);
        }
        3 => {
            a.push_u(r.below(4) as u128);
            mapping_hash(a, r);
            a.op(op::SSTORE);
        }
        _ => {
            a.op(op::POP);
        }
    }
}

/// All one-opcode chains: 21 two-operand, 2 three-operand and 11 one-operand
/// opcodes, each applied to its own result 36-65 times starting from a
/// non-constant value, each ending in every one of the ten uses. `k` picks the
/// combination; a check that spends its first `GROWTH_COMBOS` cases on
/// `k = case index` covers all of them once, whatever the seed.
pub const GROWTH_COMBOS: u64 = 34 * GROWTH_USES;
pub fn gen_growth_combo(k: u64, r: &mut Rng) -> Vec<u8> {
    const BINARY: [u8; 21] = [
        op::ADD, op::MUL, op::SUB, op::DIV, op::SDIV, op::MOD, op::SMOD, op::EXP, op::SIGNEXTEND, op::LT, op::GT,
        op::SLT, op::SGT, op::EQ, op::AND, op::OR, op::XOR, op::BYTE, op::SHL, op::SHR, op::SAR,
    ];
    const TERNARY: [u8; 2] = [op::ADDMOD, op::MULMOD];
    const UNARY: [u8; 11] = [op::ISZERO, op::NOT, op::SLOAD, op::MLOAD, op::CALLDATALOAD, op::BALANCE, op::EXTCODEHASH, op::EXTCODESIZE, op::BLOCKHASH, op::CALLER, op::POP];
    let which_op = (k % 34) as usize;
    let which_use = (k / 34) % GROWTH_USES;
    let mut a = Asm::new();
    if r.chance(1, 2) {
        a.op(op::CALLER);
    } else {
        a.push_u(4).op(op::CALLDATALOAD);
    }
    let n = 36 + r.usize_below(30);
    for _ in 0..n {
        if which_op < 21 {
            a.dup(1).op(BINARY[which_op]);
        } else if which_op < 23 {
            a.dup(1).dup(1).op(TERNARY[which_op - 21]);
        } else if which_op < 32 {
            a.op(UNARY[which_op - 23]);
        } else {
            // the last two "unary" slots: a loop-free stand-in for a flag run
            // through ISZERO / NOT in alternation
            a.op(if which_op == 32 { op::ISZERO } else { op::NOT });
            a.op(if which_op == 32 { op::NOT } else { op::ISZERO });
        }
    }
    growth_use(&mut a, r, which_use);
    a.op(op::STOP);
    a.finish()
}

/// W-nesting: types nested dozens of levels deep, each level mentioning the
/// next one once or twice: slot i holds a mapping whose key and value are both
/// "whatever slot i+1 holds" (or a mapping to it, or a dynamic array of it).
/// Whatever walks the resolved types has to stay linear in the depth.
pub fn gen_type_nesting(r: &mut Rng) -> Vec<u8> {
    let mut a = Asm::new();
    let cap = if r.chance(1, 2) { 30 } else { 70 };
    let depth = 6 + r.usize_below(cap);
    let unit = r.below(4);
    for i in 0..depth {
        let shape = if r.chance(1, 6) { r.below(4) } else { unit };
        // v = sload(i + 1)
        a.push_u(i as u128 + 1).op(op::SLOAD);
        match shape {
            0 | 1 => {
                // sstore(keccak(v . i), v): mapping(T => T)
                a.dup(1).op(op::PUSH0).op(op::MSTORE);
                a.push_u(i as u128).push_u(0x20).op(op::MSTORE);
                a.push_u(0x40).op(op::PUSH0).op(op::SHA3);
                a.op(op::SSTORE);
            }
            2 => {
                // sstore(keccak(caller . i), v): mapping(address => T)
                a.op(op::CALLER).op(op::PUSH0).op(op::MSTORE);
                a.push_u(i as u128).push_u(0x20).op(op::MSTORE);
                a.push_u(0x40).op(op::PUSH0).op(op::SHA3);
                a.op(op::SSTORE);
            }
            _ => {
                // sstore(keccak(i) + calldataload(4), v): T[]
                a.push_u(i as u128).op(op::PUSH0).op(op::MSTORE);
                a.push_u(0x20).op(op::PUSH0).op(op::SHA3);
                a.push_u(4).op(op::CALLDATALOAD).op(op::ADD);
                a.op(op::SSTORE);
            }
        }
    }
    // the innermost level is an ordinary typed slot
    a.op(op::CALLER).push_u(depth as u128).op(op::SSTORE);
    a.op(op::STOP);
    a.finish()
}

/// W-mutual: two to four constant slots whose types refer to each other in a
/// ring - slot i is a mapping or an array whose values are `sload(slot i+1)`,
/// the last one refers back to the first (`m[k] = sload(1); arr[i] =
/// sload(0)`). Every slot's resolved type is then cut off as infinite
/// somewhere, and *where* depends on the slot the resolution starts from; a
/// layout that is resolved slot by slot in table order must still not depend
/// on that order.
pub fn gen_mutual(r: &mut Rng) -> Vec<u8> {
    let mut a = Asm::new();
    let n = 2 + r.usize_below(3);
    let base = r.below(3) as u128;
    // now and then only a chord instead of the full ring, or a second
    // reference from one slot
    let mut refs: Vec<(usize, usize)> = (0..n).map(|i| (i, (i + 1) % n)).collect();
    if r.chance(1, 4) {
        refs.push((r.usize_below(n), r.usize_below(n)));
    }
    if r.chance(1, 2) {
        r.shuffle(&mut refs);
    }
    for (i, to) in refs {
        let slot = base + i as u128;
        // v = sload(slot `to`)
        a.push_u(base + to as u128).op(op::SLOAD);
        match r.below(4) {
            0 => {
                // sstore(keccak(caller . slot), v): mapping(address => T)
                a.op(op::CALLER).op(op::PUSH0).op(op::MSTORE);
                a.push_u(slot).push_u(0x20).op(op::MSTORE);
                a.push_u(0x40).op(op::PUSH0).op(op::SHA3);
                a.op(op::SSTORE);
            }
            1 => {
                // sstore(keccak(calldata . slot), v): mapping(K => T)
                a.push_u(4).op(op::CALLDATALOAD).op(op::PUSH0).op(op::MSTORE);
                a.push_u(slot).push_u(0x20).op(op::MSTORE);
                a.push_u(0x40).op(op::PUSH0).op(op::SHA3);
                a.op(op::SSTORE);
            }
            2 => {
                // sstore(keccak(slot) + calldataload(4), v): T[]
                a.push_u(slot).op(op::PUSH0).op(op::MSTORE);
                a.push_u(0x20).op(op::PUSH0).op(op::SHA3);
                a.push_u(4).op(op::CALLDATALOAD).op(op::ADD);
                a.op(op::SSTORE);
            }
            _ => {
                // the array reached through the literal hash of its slot
                a.push(keccak_word(U256::from(slot))).push_u(36).op(op::CALLDATALOAD).op(op::ADD).op(op::SSTORE);
            }
        }
    }
    if r.chance(1, 2) {
        // one of the slots is also used directly
        typed_value(&mut a, r);
        a.push_u(base + r.below(n as u64) as u128).op(op::SSTORE);
    }
    a.op(op::STOP);
    a.finish()
}

pub fn gen_growth(r: &mut Rng) -> Vec<u8> {
    if r.chance(1, 7) {
        return gen_type_nesting(r);
    }
    let mut a = Asm::new();
    match r.below(4) {
        0 => a.op(op::CALLER),
        1 => a.push_u(4).op(op::CALLDATALOAD),
        2 => a.push_u(r.below(6) as u128).op(op::SLOAD),
        _ => a.push(small_or_boundary(r)),
    };
    let cap = if r.chance(1, 3) { 200 } else { 70 };
    // Mostly tens of steps; now and then thousands (deep trees, deep
    // recursion, long-lived memoised sizes).
    let n = if r.chance(1, 25) { 1000 + r.usize_below(5000) } else { 10 + r.usize_below(cap) };
    // (the plain doubling step with one fixed opcode three times in ten)
    let unit = if r.chance(3, 10) { 0 } else if r.chance(1, 7) { 9 } else { r.below(13) };
    // Every two-operand opcode gets its turn as the doubling step: each has
    // its own arm in the value tree's size bookkeeping.
    const BINARY: [u8; 21] = [
        op::ADD, op::MUL, op::SUB, op::DIV, op::SDIV, op::MOD, op::SMOD, op::EXP, op::SIGNEXTEND, op::LT, op::GT,
        op::SLT, op::SGT, op::EQ, op::AND, op::OR, op::XOR, op::BYTE, op::SHL, op::SHR, op::SAR,
    ];
    let bin_op = *r.pick(&BINARY);
    let tern_op = if r.chance(1, 2) { op::ADDMOD } else { op::MULMOD };
    let un_op = *r.pick(&[op::SLOAD, op::SLOAD, op::SLOAD, op::MLOAD, op::CALLDATALOAD, op::BALANCE, op::EXTCODEHASH, op::EXTCODESIZE, op::BLOCKHASH, op::ISZERO, op::NOT]);
    let un_fixed = r.chance(2, 3);
    for i in 0..n {
        match if r.chance(1, 10) { r.below(13) } else { unit } {
            9 => {
                // a unary operation applied to its own result: the same one
                // all the way down (two programs in three), or a mix
                const UNARY: [u8; 10] = [op::SLOAD, op::SLOAD, op::MLOAD, op::CALLDATALOAD, op::BALANCE, op::EXTCODEHASH, op::EXTCODESIZE, op::BLOCKHASH, op::ISZERO, op::NOT];
                if un_fixed {
                    a.op(un_op);
                } else {
                    a.op(*r.pick(&UNARY));
                }
            }
            10 => {
                // CREATE2 with the previous result as its salt
                a.op(op::PUSH0).op(op::PUSH0).op(op::PUSH0).op(op::CREATE2);
            }
            11 => {
                // CREATE / CALL with the previous result as value / address
                if r.chance(1, 2) {
                    a.op(op::PUSH0).op(op::PUSH0).swap(2).op(op::CREATE);
                } else {
                    a.op(op::PUSH0).op(op::PUSH0).op(op::PUSH0).op(op::PUSH0).op(op::PUSH0).swap(5).op(op::GAS).op(op::CALL);
                }
            }
            12 => {
                // the previous result as a log topic, kept on the stack too
                a.dup(1).op(op::PUSH0).op(op::PUSH0).op(op::LOG0 + 1);
            }
            0 => {
                a.dup(1).op(bin_op);
            }
            1 => {
                let o = *r.pick(&BINARY);
                a.dup(1).op(o);
            }
            2 => {
                a.dup(1).dup(1).op(tern_op);
            }
            3 => {
                // hash chain through memory
                a.op(op::PUSH0).op(op::MSTORE).push_u(0x20).op(op::PUSH0).op(op::SHA3);
            }
            4 => {
                a.dup(1).op(op::AND).dup(1).op(op::OR);
            }
            5 => {
                a.dup(1).op(op::EXP);
            }
            6 => {
                // storage round trip: the value comes back wrapped
                let s = r.below(3) as u128;
                a.dup(1).push_u(s).op(op::SSTORE).push_u(s).op(op::SLOAD).op(op::ADD);
            }
            7 => {
                a.dup(1).push(mask(160)).op(op::AND).op(op::ADD);
            }
            _ => {
                a.dup(1).push_u(1 + (i as u128 % 7)).op(op::SHL).op(op::OR);
            }
        }
    }
    // Use the result somewhere it matters.
    let which = r.below(GROWTH_USES);
    growth_use(&mut a, r, which);
    a.op(op::STOP);
    a.finish()
}

// ---------------------------------------------------------------------------
// W-wide: one value fanned out into very many places (huge equivalence
// classes, long representative chains)
// ---------------------------------------------------------------------------

pub fn gen_wide(r: &mut Rng) -> Vec<u8> {
    let mut a = Asm::new();
    if r.chance(1, 3) {
        // one slot used as a dynamic array through hundreds of element
        // writes (hundreds of distinct pieces of evidence on one class) and
        // also written directly with two unrelated words
        let s = r.below(3) as u128;
        let n = 260 + r.usize_below(400);
        a.op(op::CALLER).push_u(s).op(op::SSTORE);
        for i in 0..n {
            a.push_u(i as u128).op(op::CALLDATALOAD);
            a.push(keccak_word(U256::from(s))).push_u(i as u128).op(op::ADD).op(op::SSTORE);
        }
        a.push_u(4).op(op::CALLDATALOAD).op(op::ISZERO).push_u(s).op(op::SSTORE);
        a.op(op::STOP);
        return a.finish();
    }
    a.push_u(r.below(3) as u128).op(op::SLOAD);
    // the value also lands in two constant slots that carry other evidence
    a.dup(1).push_u(1).op(op::SSTORE);
    a.op(op::CALLER).push_u(1).op(op::SSTORE);
    a.dup(1).push_u(2).op(op::SSTORE);
    a.push_u(4).op(op::CALLDATALOAD).op(op::ISZERO).push_u(2).op(op::SSTORE);
    let cap = if r.chance(1, 3) { 3000 } else { 900 };
    let n = 300 + r.usize_below(cap);
    for i in 0..n {
        // sstore(calldataload(i), value): a fresh symbolic key every time
        a.dup(1).push_u(i as u128).op(op::CALLDATALOAD).op(op::SSTORE);
    }
    a.op(op::POP).op(op::STOP);
    a.finish()
}

// ---------------------------------------------------------------------------
// W-const: computed constants put where the analysis converts them to native
// integers (offsets, sizes, shift amounts, jump targets, slot keys)
// ---------------------------------------------------------------------------

pub fn gen_const_use(r: &mut Rng) -> Vec<u8> {
    let mut a = Asm::new();
    let k = 1 + r.usize_below(4);
    for _ in 0..k {
        // a computed constant on the stack
        a.push(boundary_constant(r)).push(boundary_constant(r));
        a.op(*r.pick(&[
            op::SHL, op::SHR, op::SAR, op::EXP, op::MUL, op::SUB, op::ADD, op::DIV, op::SDIV, op::MOD, op::SMOD, op::SIGNEXTEND, op::BYTE, op::AND, op::OR, op::XOR,
        ]));
        if r.chance(1, 4) {
            a.op(op::NOT);
        }
        match r.below(14) {
            12 => {
                // size of the return-data region of a call (the copy loop
                // that the whole CALL family shares)
                a.op(op::PUSH0); // retOffset
                a.op(op::PUSH0).op(op::PUSH0); // argsSize, argsOffset
                let callop = *r.pick(&[op::CALL, op::CALLCODE, op::DELEGATECALL, op::STATICCALL]);
                if callop == op::CALL || callop == op::CALLCODE {
                    a.op(op::PUSH0); // value
                }
                a.op(op::CALLER).op(op::GAS).op(callop).op(op::POP);
            }
            13 => {
                // offset of the return-data region, one word
                a.push_u(0x20).swap(1);
                a.op(op::PUSH0).op(op::PUSH0).op(op::CALLER).op(op::GAS).op(op::STATICCALL).op(op::POP);
            }
            0 => {
                // memory offset of a store
                a.op(op::CALLER).swap(1).op(op::MSTORE);
            }
            1 => {
                a.op(op::MLOAD).push_u(r.below(3) as u128).op(op::SSTORE);
            }
            2 => {
                // hash offset / size
                a.push_u(0x20).swap(1).op(op::SHA3).push_u(r.below(3) as u128).op(op::SSTORE);
            }
            3 => {
                a.op(op::PUSH0).op(op::SHA3).push_u(r.below(3) as u128).op(op::SSTORE);
            }
            4 => {
                // copy size / offsets
                a.op(op::PUSH0).op(op::PUSH0).op(*r.pick(&[op::CALLDATACOPY, op::CODECOPY, op::RETURNDATACOPY]));
            }
            5 => {
                a.push_u(0x40).swap(1).op(op::PUSH0).op(op::CALLDATACOPY);
            }
            6 => {
                // shift amount / mask position of a storage value
                a.push_u(r.below(3) as u128).op(op::SLOAD).swap(1).op(*r.pick(&[op::SHR, op::SHL, op::SAR]));
                a.push(mask(*r.pick(&[8u32, 64, 160]))).op(op::AND).push_u(r.below(3) as u128).op(op::SSTORE);
            }
            7 => {
                // slot key
                a.op(op::CALLER).swap(1).op(op::SSTORE);
            }
            8 => {
                a.op(op::SLOAD).op(op::POP);
            }
            9 => {
                // offset added to a mapping / array hash
                a.push_u(r.below(3) as u128);
                mapping_hash(&mut a, r);
                a.op(op::ADD).op(op::SLOAD).op(op::POP);
            }
            10 => {
                // return / revert / log region
                a.push_u(0x20).swap(1).op(*r.pick(&[op::RETURN, op::REVERT, op::LOG0]));
            }
            _ => {
                // jump target
                a.op(if r.chance(1, 2) { op::JUMP } else { op::JUMPI });
            }
        }
    }
    a.op(op::JUMPDEST).op(op::STOP);
    a.finish()
}

// ---------------------------------------------------------------------------
// W-copy: programs that spend their time in the bulk-copy loops (C13)
// ---------------------------------------------------------------------------

pub fn gen_copy(r: &mut Rng) -> Vec<u8> {
    let mut a = Asm::new();
    if r.chance(1, 6) {
        // many ordinary execution errors recorded before the copies: each
        // conditional jump to a non-destination leaves an error behind while
        // the thread carries on
        let bad = 100 + r.usize_below(80);
        for _ in 0..bad {
            a.op(op::PUSH0).op(op::PUSH0).op(op::JUMPI);
        }
    }
    let n = 1 + r.usize_below(4);
    for _ in 0..n {
        let size = 32 * r.range(1, 40) as u128 + if r.chance(1, 4) { r.below(32) as u128 } else { 0 };
        match r.below(8) {
            0 => {
                a.push_u(size).push_u(r.below(64) as u128).push_u(r.below(256) as u128).op(op::CALLDATACOPY);
            }
            1 => {
                a.push_u(size).push_u(r.below(64) as u128).push_u(r.below(256) as u128).op(op::CODECOPY);
            }
            2 => {
                // source offsets small, around the 24 KiB code-size limit, and huge
                let off: U256 = match r.below(5) {
                    0 | 1 => U256::from(r.below(64)),
                    2 => U256::from(0x5c00 + 0x100 * r.below(12)),
                    3 => U256::from(0xff00u32),
                    _ => boundary_constant(r),
                };
                a.push_u(size).push(off).push_u(r.below(256) as u128);
                a.op(op::CALLER).op(op::EXTCODECOPY);
            }
            7 => {
                // as below, but the path that runs first is the short one: it
                // fails at the copy instruction before the complete one gets
                // there
                let l = a.new_label();
                a.push_u(size).push_u(r.below(64) as u128).push_u(r.below(256) as u128);
                a.op(op::CALLDATASIZE).jumpi_to(l);
                a.op(op::POP);
                a.place(l);
                a.op(*r.pick(&[op::CALLDATACOPY, op::CODECOPY, op::RETURNDATACOPY]));
            }
            6 => {
                // two paths reach the same copy instruction, one of them one
                // operand short (it fails there), the other complete
                let l = a.new_label();
                a.push_u(size).push_u(r.below(64) as u128);
                a.op(op::CALLDATASIZE).jumpi_to(l);
                a.push_u(r.below(256) as u128);
                a.place(l);
                a.op(*r.pick(&[op::CALLDATACOPY, op::CODECOPY, op::RETURNDATACOPY]));
            }
            3 => {
                a.push_u(size).push_u(r.below(64) as u128).push_u(r.below(256) as u128).op(op::RETURNDATACOPY);
            }
            4 => {
                // call(gas, addr, value, in, insize, out, outsize)
                a.push_u(size).push_u(r.below(256) as u128).op(op::PUSH0).op(op::PUSH0).op(op::PUSH0);
                a.op(op::CALLER).op(op::GAS).op(op::CALL).op(op::POP);
            }
            _ => {
                // staticcall(gas, addr, in, insize, out, outsize)
                a.push_u(size).push_u(r.below(256) as u128).op(op::PUSH0).op(op::PUSH0);
                a.op(op::CALLER).op(op::GAS).op(op::STATICCALL).op(op::POP);
            }
        }
    }
    // A couple of constant slots so that the layout loop has work, and a fork.
    let l = a.new_label();
    a.op(op::CALLDATASIZE).jumpi_to(l);
    a.op(op::CALLER).op(op::PUSH0).op(op::SSTORE);
    a.place(l);
    a.op(op::TIMESTAMP).push_u(1).op(op::SSTORE);
    a.push_u(0x40).op(op::MLOAD).push_u(2).op(op::SSTORE);
    a.op(op::STOP);
    let mut code = a.finish();
    if r.chance(1, 2) {
        let tail = gen_storage(r);
        // Put the storage program in front so that both run.
        let mut c2 = tail;
        if c2.last() == Some(&op::STOP) {
            c2.pop();
        }
        // Only safe when the storage program has no jumps (offsets shift).
        if !c2.contains(&op::JUMPI) && !c2.contains(&op::JUMP) {
            c2.extend(code);
            code = c2;
        }
    }
    code
}

// ---------------------------------------------------------------------------
// W-corpus
// ---------------------------------------------------------------------------

pub struct Corpus {
    pub items: Vec<(String, Vec<u8>)>,
}

impl Corpus {
    pub fn load(dir: &str) -> Corpus {
        let mut items = Vec::new();
        if let Ok(rd) = std::fs::read_dir(dir) {
            let mut paths: Vec<_> = rd.filter_map(Result::ok).map(|e| e.path()).collect();
            // Directory order is not deterministic: sort.
            paths.sort();
            for p in paths {
                if p.extension().and_then(|e| e.to_str()) == Some("hex") {
                    if let Ok(s) = std::fs::read_to_string(&p) {
                        if let Ok(b) = hex::decode(s.trim().trim_start_matches("0x")) {
                            items.push((p.file_stem().unwrap().to_string_lossy().to_string(), b));
                        }
                    }
                }
            }
        }
        Corpus { items }
    }

    pub fn small(&self, max: usize) -> Vec<&(String, Vec<u8>)> {
        self.items.iter().filter(|(_, b)| b.len() <= max).collect()
    }
}

/// A corpus contract with up to three byte/instruction edits, possibly cut.
pub fn gen_corpus(r: &mut Rng, corpus: &Corpus, max_len: usize) -> Vec<u8> {
    let pool = corpus.small(max_len);
    if pool.is_empty() {
        return gen_storage(r);
    }
    let mut code = r.pick(&pool).1.clone();
    let edits = r.usize_below(4);
    for _ in 0..edits {
        if code.is_empty() {
            break;
        }
        let at = r.usize_below(code.len());
        match r.below(5) {
            0 => code[at] = r.next() as u8,
            1 => {
                code.remove(at);
            }
            2 => code.insert(at, r.next() as u8),
            3 => {
                // overwrite a PUSH immediate region with a boundary constant
                let c = boundary_constant(r).to_be_bytes();
                for (i, b) in c.iter().enumerate() {
                    if at + i < code.len() {
                        code[at + i] = *b;
                    }
                }
            }
            _ => code[at] = *r.pick(&[op::JUMPDEST, op::JUMPI, op::SSTORE, op::SLOAD, op::SHA3, op::PUSH32, op::STOP]),
        }
    }
    if r.chance(1, 4) && code.len() > 2 {
        let cut = 1 + r.usize_below(code.len() - 1);
        code.truncate(cut);
    }
    if code.is_empty() {
        code.push(op::STOP);
    }
    code
}

/// Cuts `code` right after its last JUMPDEST instruction, so that the program
/// ends on a jump destination (a byte sequence may end anywhere).
pub fn end_on_last_jumpdest(code: &mut Vec<u8>) {
    if let Some(last) = crate::asm::jumpdest_offsets(code).last().copied() {
        if last > 0 {
            code.truncate(last + 1);
        }
    }
}

// ---------------------------------------------------------------------------
// Knob swarm (N6)
// ---------------------------------------------------------------------------

pub fn gen_knobs(r: &mut Rng) -> Knobs {
    Knobs {
        // up to the block limit mostly; any positive limit is valid, so now
        // and then far beyond it
        gas_limit:        if r.chance(1, 8) { 1_000_000_000_000 } else { r.log_range(200, 30_000_000) as usize },
        max_iterations:   r.range(1, 12) as usize,
        max_forks:        r.range(1, 60) as usize,
        value_size_limit: *r.pick(&[1usize, 2, 3, 5, 10, 50, 250, 1000]),
        mem_op_limit:     *r.pick(&[1usize, 31, 32, 33, 394, 4096, 65_536]),
        permissive:       r.chance(1, 2),
    }
}

pub fn mixed_knobs(r: &mut Rng, default_pct: u64) -> Knobs {
    if r.below(100) < default_pct {
        let mut k = Knobs::default();
        if r.chance(1, 4) {
            k.permissive = true;
        }
        k
    } else {
        gen_knobs(r)
    }
}
