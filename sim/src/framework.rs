//! Check framework: the parent/worker process model, aggregation, known
//! findings, replay files and evidence.

use std::{
    collections::{BTreeMap, BTreeSet, HashSet},
    io::{BufRead, BufReader, Write},
    process::{Child, ChildStdin, ChildStdout, Command, Stdio},
    sync::{
        atomic::{AtomicU64, Ordering},
        mpsc,
        Arc,
        Mutex,
    },
    time::{Duration, Instant},
};

use serde::{Deserialize, Serialize};
use serde_json::{json, Value};

use crate::rng::derive;

pub const VERIF_DIR: &str = "/verif";
pub const DEFAULT_SEED: u64 = 20_260_925;

/// Where evidence and replay files go: /verif, unless a sensitivity run
/// (which must not overwrite the real evidence) redirects them.
pub fn out_dir() -> String {
    std::env::var("SLX_OUT_DIR").unwrap_or_else(|_| VERIF_DIR.to_string())
}

#[derive(Copy, Clone, Debug, PartialEq, Eq)]
pub enum Tier {
    Quick,
    Thorough,
}

impl Tier {
    pub fn name(self) -> &'static str {
        match self {
            Tier::Quick => "quick",
            Tier::Thorough => "thorough",
        }
    }

    pub fn parse(s: &str) -> Option<Tier> {
        match s {
            "quick" => Some(Tier::Quick),
            "thorough" => Some(Tier::Thorough),
            _ => None,
        }
    }
}

#[derive(Clone, Debug, Serialize, Deserialize)]
pub struct Violation {
    pub property:  String,
    /// Identifies the failing call site / history class; this is what the
    /// known-findings file is keyed by.
    pub signature: String,
    /// Human-readable explanation.
    pub detail:    Value,
    /// Everything needed to re-execute the failing case.
    pub replay:    Value,
}

#[derive(Clone, Debug, Default, Serialize, Deserialize)]
pub struct CaseResult {
    pub runs:        u64,
    pub steps:       u64,
    /// Digests of the distinct non-trivial cases met (rule per check).
    pub nontrivial:  Vec<u64>,
    /// Distinct fold-order digests and schedule-trace digests met.
    pub fold_orders: Vec<u64>,
    pub traces:      Vec<u64>,
    /// Fault kinds that actually fired, and reach probes.
    pub faults:      BTreeMap<String, u64>,
    pub probes:      BTreeMap<String, u64>,
    pub violations:  Vec<Violation>,
    pub sample:      Option<Value>,
    /// Harness-level problems (exit 2).
    pub harness_errors: Vec<String>,
    /// Fingerprints of the runs of this case (determinism self-test only).
    #[serde(default)]
    pub fingerprints: Vec<u64>,
    /// Free-form diagnostics, printed by the parent (first few only).
    #[serde(default)]
    pub notes:       Vec<String>,
    /// Wall time of the case (diagnostic only; never part of a verdict).
    #[serde(default)]
    pub wall_ms:     u64,
}

impl CaseResult {
    pub fn fault(&mut self, k: &str) {
        *self.faults.entry(k.to_string()).or_insert(0) += 1;
    }

    pub fn probe(&mut self, k: &str) {
        *self.probes.entry(k.to_string()).or_insert(0) += 1;
    }

    pub fn probe_n(&mut self, k: &str, n: u64) {
        *self.probes.entry(k.to_string()).or_insert(0) += n;
    }
}

pub struct CheckInfo {
    pub id:          &'static str,
    pub level:       &'static str,
    pub rule:        &'static str,
    pub assumptions: &'static [&'static str],
    pub components:  Value,
}

pub trait Check: Sync {
    fn info(&self) -> CheckInfo;
    /// Number of cases in this tier.
    fn cases(&self, tier: Tier) -> u64;
    /// Executes one case on the current (worker) thread.
    fn run_case(&self, idx: u64, seed: u64, tier: Tier) -> CaseResult;
    /// Re-executes a replay payload; returns the violation if it reproduces.
    fn replay(&self, payload: &Value) -> Result<Option<Violation>, String>;
    /// Stack size of the thread a case runs on: 8 MiB (a main thread) unless
    /// the check wants something else for this case.
    fn stack_bytes(&self, _idx: u64) -> usize {
        8 * 1024 * 1024
    }
    /// Whether `exhaustive` may be claimed for this tier, and of what.
    fn exhaustive(&self, _tier: Tier) -> Option<String> {
        None
    }
}

// ---------------------------------------------------------------------------
// Known findings
// ---------------------------------------------------------------------------

#[derive(Clone, Debug, Default, Serialize, Deserialize)]
pub struct KnownFinding {
    pub property:  String,
    pub signature: String,
    pub what:      String,
    #[serde(default)]
    pub witness:   Value,
}

#[derive(Clone, Debug, Default, Serialize, Deserialize)]
pub struct KnownFindings {
    #[serde(default)]
    pub findings: Vec<KnownFinding>,
    #[serde(default)]
    pub fixed:    Vec<String>,
}

impl KnownFindings {
    pub fn load() -> KnownFindings {
        let p = format!("{VERIF_DIR}/known_findings.json");
        match std::fs::read_to_string(&p) {
            Ok(s) => serde_json::from_str(&s).unwrap_or_else(|e| {
                eprintln!("harness error: cannot parse {p}: {e}");
                std::process::exit(2);
            }),
            Err(_) => KnownFindings::default(),
        }
    }

    pub fn matches(&self, v: &Violation) -> Option<&KnownFinding> {
        self.findings
            .iter()
            .find(|f| f.property == v.property && f.signature == v.signature)
    }
}

// ---------------------------------------------------------------------------
// Worker side
// ---------------------------------------------------------------------------

pub fn base_seed() -> u64 {
    match std::env::var("VERIF_SEED") {
        Ok(s) => s.trim().parse::<u64>().unwrap_or_else(|_| {
            // Accept any string: hash it.
            let mut h: u64 = 0xcbf2_9ce4_8422_2325;
            for b in s.as_bytes() {
                h ^= u64::from(*b);
                h = h.wrapping_mul(0x0000_0100_0000_01b3);
            }
            h
        }),
        Err(_) => DEFAULT_SEED,
    }
}

pub fn case_seed(base: u64, id: &str, idx: u64) -> u64 {
    let mut h: u64 = 0xcbf2_9ce4_8422_2325;
    for b in id.as_bytes() {
        h ^= u64::from(*b);
        h = h.wrapping_mul(0x0000_0100_0000_01b3);
    }
    derive(derive(base, h), idx)
}

/// `slx-sim worker <ID> <tier>`: reads `CASE <idx> <seed>` lines, answers
/// `DONE <json>` lines. Runs every case on an 8 MiB-stack thread.
pub fn worker_main(check: &'static dyn Check, tier: Tier) {
    set_memory_limit();
    let stdin = std::io::stdin();
    let stdout = std::io::stdout();
    for line in stdin.lock().lines() {
        let Ok(line) = line else { break };
        let parts: Vec<&str> = line.split_whitespace().collect();
        if parts.len() != 3 || parts[0] != "CASE" {
            continue;
        }
        let idx: u64 = parts[1].parse().unwrap_or(0);
        let seed: u64 = parts[2].parse().unwrap_or(0);
        let t0 = Instant::now();
        let mut res = crate::sim::on_stack(check.stack_bytes(idx), move || check.run_case(idx, seed, tier));
        res.wall_ms = t0.elapsed().as_millis() as u64;
        let mut out = stdout.lock();
        let _ = writeln!(out, "DONE {}", serde_json::to_string(&res).unwrap());
        let _ = out.flush();
    }
}

fn set_memory_limit() {
    // 3 GiB of address space per worker: an analysis that wants more is
    // killed (abort) and attributed to its seed by the parent.
    let lim = libc::rlimit {
        rlim_cur: 3 << 30,
        rlim_max: 3 << 30,
    };
    unsafe {
        libc::setrlimit(libc::RLIMIT_AS, &lim);
    }
}

// ---------------------------------------------------------------------------
// Parent side
// ---------------------------------------------------------------------------

struct Worker {
    child:  Child,
    stdin:  ChildStdin,
    stdout: BufReader<ChildStdout>,
}

fn spawn_worker(id: &str, tier: Tier, exe: &std::path::Path) -> Worker {
    let mut child = Command::new(exe)
        .arg("worker")
        .arg(id)
        .arg(tier.name())
        .stdin(Stdio::piped())
        .stdout(Stdio::piped())
        .stderr(Stdio::inherit())
        .spawn()
        .expect("spawn worker");
    let stdin = child.stdin.take().unwrap();
    let stdout = BufReader::new(child.stdout.take().unwrap());
    Worker { child, stdin, stdout }
}

enum WorkerEvent {
    Done(u64, u64, Box<CaseResult>),
    Crashed(u64, u64, String),
}

pub struct Aggregate {
    pub cases:       u64,
    pub runs:        u64,
    pub steps:       u64,
    pub nontrivial:  HashSet<u64>,
    pub fold_orders: HashSet<u64>,
    pub traces:      HashSet<u64>,
    pub faults:      BTreeMap<String, u64>,
    pub probes:      BTreeMap<String, u64>,
    pub violations:  Vec<Violation>,
    pub samples:     Vec<Value>,
    pub harness_errors: Vec<String>,
    pub first_seed:  u64,
    pub last_seed:   u64,
    pub slowest:     Vec<(u64, u64)>,
    pub notes:       Vec<String>,
    pub fingerprints: BTreeMap<u64, Vec<u64>>,
}

impl Aggregate {
    pub fn merge(&mut self, o: Aggregate) {
        self.cases += o.cases;
        self.runs += o.runs;
        self.steps += o.steps;
        self.nontrivial.extend(o.nontrivial);
        self.fold_orders.extend(o.fold_orders);
        self.traces.extend(o.traces);
        for (k, v) in o.faults {
            *self.faults.entry(k).or_insert(0) += v;
        }
        for (k, v) in o.probes {
            *self.probes.entry(k).or_insert(0) += v;
        }
        self.violations.extend(o.violations);
        self.samples.extend(o.samples);
        self.samples.truncate(6);
        self.harness_errors.extend(o.harness_errors);
        self.last_seed = o.last_seed;
        self.slowest.extend(o.slowest);
        self.slowest.sort_by(|a, b| b.cmp(a));
        self.slowest.truncate(8);
        self.notes.extend(o.notes);
        self.fingerprints.extend(o.fingerprints);
    }
}

/// Case timeout (wall clock): a safety net for loops that neither terminate
/// nor poll. Verdict-producing budgets are all in simulated steps.
const CASE_TIMEOUT: Duration = Duration::from_secs(180);
/// The thorough tiers run contract-sized programs under several dozen
/// schedules per case; their slowest legitimate cases take 100-160 s of CPU
/// on a loaded machine, so the safety net sits higher there.
const CASE_TIMEOUT_THOROUGH: Duration = Duration::from_secs(600);

fn case_timeout(tier: Tier) -> Duration {
    match tier {
        Tier::Quick => CASE_TIMEOUT,
        Tier::Thorough => CASE_TIMEOUT_THOROUGH,
    }
}
/// Stop handing out cases after this many violations outside the known list.
const ENOUGH_VIOLATIONS: usize = 60;
/// Set while dumping findings (a maintenance run wants all of them).
static NO_EARLY_STOP: std::sync::atomic::AtomicBool = std::sync::atomic::AtomicBool::new(false);

pub fn run_pool(check: &'static dyn Check, tier: Tier, base: u64, n_workers: usize, only: Option<Vec<u64>>) -> Aggregate {
    let exe = std::env::current_exe().expect("current_exe");
    run_pool_with(check, tier, base, n_workers, only, exe)
}

/// As `run_pool`, with the worker processes started from `exe` (the same
/// program built under another profile).
pub fn run_pool_with(check: &'static dyn Check, tier: Tier, base: u64, n_workers: usize, only: Option<Vec<u64>>, exe: std::path::PathBuf) -> Aggregate {
    let id = check.info().id;
    let total = check.cases(tier);
    let indices: Vec<u64> = match only {
        Some(v) => v,
        None => (0..total).collect(),
    };
    let next = Arc::new(AtomicU64::new(0));
    let indices = Arc::new(indices);
    let (tx, rx) = mpsc::channel::<WorkerEvent>();
    let mut handles = Vec::new();
    let crash_property = match id {
        "C03" | "C14" => id,
        _ => "C01",
    };
    let _ = crash_property;
    for _ in 0..n_workers {
        let next = next.clone();
        let indices = indices.clone();
        let tx = tx.clone();
        let id = id.to_string();
        let exe = exe.clone();
        handles.push(std::thread::spawn(move || {
            let mut w = spawn_worker(&id, tier, &exe);
            loop {
                let k = next.fetch_add(1, Ordering::SeqCst) as usize;
                if k >= indices.len() {
                    break;
                }
                let idx = indices[k];
                let seed = case_seed(base, &id, idx);
                if writeln!(w.stdin, "CASE {idx} {seed}").is_err() || w.stdin.flush().is_err() {
                    let _ = tx.send(WorkerEvent::Crashed(idx, seed, "worker pipe closed".into()));
                    let _ = w.child.kill();
                    let _ = w.child.wait();
                    w = spawn_worker(&id, tier, &exe);
                    continue;
                }
                // Read the answer with a wall-clock guard.
                let (ltx, lrx) = mpsc::channel::<Option<String>>();
                let mut reader = w.stdout;
                let t = std::thread::spawn(move || {
                    let mut line = String::new();
                    let r = reader.read_line(&mut line);
                    let _ = ltx.send(match r {
                        Ok(n) if n > 0 => Some(line),
                        _ => None,
                    });
                    reader
                });
                match lrx.recv_timeout(case_timeout(tier)) {
                    Ok(Some(line)) => {
                        w.stdout = t.join().unwrap();
                        if let Some(js) = line.strip_prefix("DONE ") {
                            match serde_json::from_str::<CaseResult>(js) {
                                Ok(r) => {
                                    let _ = tx.send(WorkerEvent::Done(idx, seed, Box::new(r)));
                                }
                                Err(e) => {
                                    let _ = tx.send(WorkerEvent::Crashed(idx, seed, format!("unparsable worker answer: {e}")));
                                }
                            }
                        } else {
                            let _ = tx.send(WorkerEvent::Crashed(idx, seed, "unexpected worker output".into()));
                        }
                    }
                    Ok(None) => {
                        // EOF: the worker died (signal / abort / OOM).
                        let status = w.child.wait().ok();
                        let how = match status {
                            Some(s) => {
                                use std::os::unix::process::ExitStatusExt;
                                match s.signal() {
                                    Some(sig) => format!("killed by signal {sig}"),
                                    None => format!("exited with {:?}", s.code()),
                                }
                            }
                            None => "died".into(),
                        };
                        let _ = tx.send(WorkerEvent::Crashed(idx, seed, how));
                        let _ = t.join();
                        w = spawn_worker(&id, tier, &exe);
                    }
                    Err(_) => {
                        let _ = w.child.kill();
                        let _ = w.child.wait();
                        let _ = t.join();
                        let _ = tx.send(WorkerEvent::Crashed(
                            idx,
                            seed,
                            format!("no answer within {} s of wall time (hang outside any polled loop)", case_timeout(tier).as_secs()),
                        ));
                        w = spawn_worker(&id, tier, &exe);
                    }
                }
            }
            drop(w.stdin);
            let _ = w.child.wait();
        }));
    }
    drop(tx);

    let mut agg = Aggregate {
        cases: 0,
        runs: 0,
        steps: 0,
        nontrivial: HashSet::new(),
        fold_orders: HashSet::new(),
        traces: HashSet::new(),
        faults: BTreeMap::new(),
        probes: BTreeMap::new(),
        violations: Vec::new(),
        samples: Vec::new(),
        harness_errors: Vec::new(),
        first_seed: case_seed(base, id, indices.first().copied().unwrap_or(0)),
        last_seed: case_seed(base, id, indices.last().copied().unwrap_or(0)),
        slowest: Vec::new(),
        notes: Vec::new(),
        fingerprints: BTreeMap::new(),
    };
    let mut sample_slots: BTreeMap<u64, Value> = BTreeMap::new();
    // Once plenty of violations that are not known findings have been seen,
    // no further cases are handed out: under a badly broken tree (e.g. a
    // unifier that no longer terminates) every remaining case could cost its
    // whole step budget, and the verdict is already clear.
    let known = KnownFindings::load();
    let mut unknown_violations = 0usize;
    for ev in rx {
        if unknown_violations >= ENOUGH_VIOLATIONS && !NO_EARLY_STOP.load(Ordering::SeqCst) {
            next.store(u64::MAX / 2, Ordering::SeqCst);
        }
        match ev {
            WorkerEvent::Done(idx, _seed, r) => {
                agg.cases += 1;
                agg.slowest.push((r.wall_ms, idx));
                agg.slowest.sort_by(|a, b| b.cmp(a));
                agg.slowest.truncate(8);
                if !r.fingerprints.is_empty() {
                    agg.fingerprints.insert(idx, r.fingerprints.clone());
                }
                for n in &r.notes {
                    if agg.notes.len() < 40 {
                        agg.notes.push(format!("case {idx}: {n}"));
                    }
                }
                agg.runs += r.runs;
                agg.steps += r.steps;
                agg.nontrivial.extend(r.nontrivial.iter().copied());
                agg.fold_orders.extend(r.fold_orders.iter().copied());
                agg.traces.extend(r.traces.iter().copied());
                for (k, v) in &r.faults {
                    *agg.faults.entry(k.clone()).or_insert(0) += v;
                }
                for (k, v) in &r.probes {
                    *agg.probes.entry(k.clone()).or_insert(0) += v;
                }
                unknown_violations += r.violations.iter().filter(|v| known.matches(v).is_none()).count();
                agg.violations.extend(r.violations.iter().cloned());
                agg.harness_errors.extend(r.harness_errors.iter().cloned());
                if let Some(s) = r.sample {
                    // Keep the samples of the lowest case indices: the choice
                    // must not depend on which worker finished first.
                    sample_slots.insert(idx, s);
                    while sample_slots.len() > 5 {
                        let last = *sample_slots.keys().next_back().unwrap();
                        sample_slots.remove(&last);
                    }
                }
            }
            WorkerEvent::Crashed(idx, seed, how) => {
                agg.cases += 1;
                unknown_violations += 1;
                let prop = if how.contains("wall time") && (id == "C03" || id == "C14") { id } else { "C01" };
                agg.violations.push(Violation {
                    property:  if id == "C01" || id == "C03" || id == "C14" { prop.to_string() } else { id.to_string() },
                    signature: format!("process:{}", how.split(" of wall").next().unwrap_or(&how)),
                    detail:    json!({"case": idx, "seed": seed, "what": how, "note": "the worker process did not survive this case; re-run it with `slx-sim case` to isolate the scenario"}),
                    replay:    json!({"kind": "case", "check": id, "tier": tier.name(), "case": idx, "seed": seed}),
                });
            }
        }
    }
    for h in handles {
        let _ = h.join();
    }
    agg.samples = sample_slots.into_values().collect();
    agg
}

// ---------------------------------------------------------------------------
// Verdict, replay files, evidence
// ---------------------------------------------------------------------------

static REPLAY_COUNTER: Mutex<u64> = Mutex::new(0);

pub fn write_replay(v: &Violation, base: u64) -> String {
    let dir = format!("{}/replays", out_dir());
    let _ = std::fs::create_dir_all(&dir);
    let mut n = REPLAY_COUNTER.lock().unwrap();
    *n += 1;
    let mut h: u64 = 0xcbf2_9ce4_8422_2325;
    for b in v.signature.as_bytes() {
        h ^= u64::from(*b);
        h = h.wrapping_mul(0x0000_0100_0000_01b3);
    }
    let path = format!("{dir}/{}-{}-{:08x}-{}.json", v.property, base, h as u32, *n);
    let body = json!({
        "property": v.property,
        "signature": v.signature,
        "detail": v.detail,
        "replay": v.replay,
    });
    std::fs::write(&path, serde_json::to_string_pretty(&body).unwrap()).expect("write replay file");
    path
}

pub struct Verdict {
    pub exit_code:      i32,
    pub known_seen:     BTreeSet<String>,
    pub new_violations: usize,
}

pub fn judge(id: &str, agg: &Aggregate, base: u64, max_reports: usize) -> Verdict {
    let known = KnownFindings::load();
    let mut known_seen: BTreeSet<String> = BTreeSet::new();
    let mut reported: BTreeSet<String> = BTreeSet::new();
    let mut new_violations = 0usize;
    for v in &agg.violations {
        if let Some(k) = known.matches(v) {
            if known_seen.insert(format!("{}|{}", k.property, k.signature)) {
                println!("KNOWN-FINDING: property={} {} -- {}", k.property, k.signature, k.what);
            }
            continue;
        }
        new_violations += 1;
        let key = format!("{}|{}", v.property, v.signature);
        if reported.insert(key) && reported.len() <= max_reports {
            let path = write_replay(v, base);
            println!("VIOLATION property={} replay={}", v.property, path);
            println!("  signature: {}", v.signature);
            println!("  detail: {}", serde_json::to_string(&v.detail).unwrap_or_default());
        }
    }
    let _ = id;
    let exit_code = if !agg.harness_errors.is_empty() {
        for e in agg.harness_errors.iter().take(10) {
            eprintln!("harness error: {e}");
        }
        2
    } else if new_violations > 0 {
        1
    } else {
        0
    };
    Verdict {
        exit_code,
        known_seen,
        new_violations,
    }
}

pub fn write_evidence(check: &dyn Check, tier: Tier, base: u64, agg: &Aggregate, verdict: &Verdict, wall: f64) {
    let info = check.info();
    let dir = format!("{}/evidence", out_dir());
    let _ = std::fs::create_dir_all(&dir);
    let runs_per_hour = if wall > 0.0 { (agg.runs as f64 / wall * 3600.0) as u64 } else { 0 };
    let mut coverage = json!({
        "evaluations": agg.runs,
        "distinct_nontrivial": agg.nontrivial.len(),
        "rule": info.rule,
        "samples": agg.samples,
        "cases": agg.cases,
        "runs_per_hour": runs_per_hour,
        "cases_per_hour": if wall > 0.0 { (agg.cases as f64 / wall * 3600.0) as u64 } else { 0 },
        "seeds": {"base": base, "first_case_seed": agg.first_seed, "last_case_seed": agg.last_seed},
        "simulated_steps_total": agg.steps,
        "fault_kinds": agg.faults,
        "probes": agg.probes,
        "distinct_fold_orders": agg.fold_orders.len(),
        "distinct_schedule_traces": agg.traces.len(),
        "components": info.components,
        "known_findings_seen": verdict.known_seen.iter().cloned().collect::<Vec<_>>(),
    });
    if let Some(what) = check.exhaustive(tier) {
        coverage["exhaustive"] = json!(true);
        coverage["exhaustive_over"] = json!(what);
    }
    let probes_at_zero: Vec<&String> = agg.probes.iter().filter(|(_, v)| **v == 0).map(|(k, _)| k).collect();
    coverage["probes_at_zero"] = json!(probes_at_zero);
    let ev = json!({
        "property_id": info.id,
        "tier": tier.name(),
        "seed": base,
        "level": info.level,
        "coverage": coverage,
        "assumptions": info.assumptions,
        "wall_s": wall,
        "violations": verdict.new_violations,
    });
    let path = format!("{dir}/{}.json", info.id);
    std::fs::write(&path, serde_json::to_string_pretty(&ev).unwrap()).expect("write evidence");
}

pub fn check_main(check: &'static dyn Check, tier: Tier, workers: usize, limit: Option<u64>, dump: Option<String>) -> i32 {
    let base = base_seed();
    let info = check.info();
    println!("check {} tier={} VERIF_SEED={} cases={} workers={}", info.id, tier.name(), base, check.cases(tier), workers);
    let t0 = Instant::now();
    if dump.is_some() {
        NO_EARLY_STOP.store(true, Ordering::SeqCst);
    }
    let total = limit.map_or(check.cases(tier), |n| n.min(check.cases(tier)));
    let second = std::env::var("SLX_SECOND_PROFILE_BIN").ok().filter(|p| std::path::Path::new(p).exists());
    let agg = match (info.id, second) {
        // C01 runs the even cases under the release profile and the odd
        // cases under the same build with debug assertions on.
        ("C01", Some(bin)) => {
            let even: Vec<u64> = (0..total).filter(|i| i % 2 == 0).collect();
            let odd: Vec<u64> = (0..total).filter(|i| i % 2 == 1).collect();
            let mut a = run_pool(check, tier, base, workers, Some(even));
            let b = run_pool_with(check, tier, base, workers, Some(odd), std::path::PathBuf::from(&bin));
            *a.probes.entry("cases_under_release_profile".into()).or_insert(0) += a.cases;
            *a.probes.entry("cases_under_debug_assertions_profile".into()).or_insert(0) += b.cases;
            a.merge(b);
            a
        }
        _ => run_pool(check, tier, base, workers, limit.map(|_| (0..total).collect())),
    };
    let wall = t0.elapsed().as_secs_f64();
    if let Some(path) = dump {
        // Maintenance aid (never used by a registered command): write every
        // violation of this run, unique by signature, in known-findings form.
        let mut seen = BTreeSet::new();
        let mut out = Vec::new();
        for v in &agg.violations {
            if seen.insert(v.signature.clone()) {
                out.push(json!({"property": v.property, "signature": v.signature, "what": "", "witness": v.replay}));
            }
        }
        std::fs::write(&path, serde_json::to_string_pretty(&out).unwrap()).expect("write dump");
        println!("dumped {} distinct signatures to {path}", out.len());
    }
    let verdict = judge(info.id, &agg, base, 5);
    write_evidence(check, tier, base, &agg, &verdict, wall);
    println!(
        "{}: cases={} runs={} steps={} distinct_nontrivial={} fold_orders={} traces={} known_findings={} new_violations={} wall={:.1}s",
        info.id,
        agg.cases,
        agg.runs,
        agg.steps,
        agg.nontrivial.len(),
        agg.fold_orders.len(),
        agg.traces.len(),
        verdict.known_seen.len(),
        verdict.new_violations,
        wall
    );
    let mut by_sig: BTreeMap<String, (u64, u64)> = BTreeMap::new();
    for v in &agg.violations {
        let e = by_sig.entry(format!("{} {}", v.property, v.signature)).or_insert((0, v.detail["case"].as_u64().unwrap_or(0)));
        e.0 += 1;
    }
    for (k, (n, case)) in by_sig.iter().take(60) {
        println!("  [{n}x, e.g. case {case}] {}", k.chars().take(260).collect::<String>());
    }
    for n in &agg.notes {
        println!("  note: {}", n.chars().take(400).collect::<String>());
    }
    println!("  slowest cases (ms, index): {:?}", agg.slowest);
    println!("  faults: {}", serde_json::to_string(&agg.faults).unwrap_or_default());
    println!("  probes: {}", serde_json::to_string(&agg.probes).unwrap_or_default());
    verdict.exit_code
}

/// `slx-sim replay <file>`: re-executes a replay file in this (fresh)
/// process.
pub fn replay_main(checks: &[&'static dyn Check], path: &str) -> i32 {
    let body: Value = match std::fs::read_to_string(path).map_err(|e| e.to_string()).and_then(|s| serde_json::from_str(&s).map_err(|e| e.to_string())) {
        Ok(v) => v,
        Err(e) => {
            eprintln!("harness error: cannot read replay file {path}: {e}");
            return 2;
        }
    };
    let payload = &body["replay"];
    let check_id = payload["check"].as_str().or(body["property"].as_str()).unwrap_or("");
    let Some(check) = checks.iter().find(|c| c.info().id == check_id) else {
        eprintln!("harness error: no check {check_id}");
        return 2;
    };
    if payload["kind"] == "case" {
        // A case whose worker did not survive (abort, stack overflow, OOM,
        // hang): re-run it in a child process so that the crash is observed
        // rather than shared.
        let idx = payload["case"].as_u64().unwrap_or(0);
        let tier = payload["tier"].as_str().unwrap_or("quick").to_string();
        let exe = std::env::current_exe().expect("current_exe");
        let mut child = match Command::new(exe)
            .arg("case")
            .arg(check_id)
            .arg(&tier)
            .arg(idx.to_string())
            .env("VERIF_CASE_SEED", payload["seed"].as_u64().unwrap_or(0).to_string())
            .stdout(Stdio::null())
            .stderr(Stdio::inherit())
            .spawn()
        {
            Ok(c) => c,
            Err(e) => {
                eprintln!("harness error: cannot spawn child: {e}");
                return 2;
            }
        };
        let t0 = Instant::now();
        loop {
            match child.try_wait() {
                Ok(Some(status)) => {
                    use std::os::unix::process::ExitStatusExt;
                    if let Some(sig) = status.signal() {
                        println!("VIOLATION property={} replay={}", body["property"].as_str().unwrap_or("C01"), path);
                        println!("  signature: process:killed by signal {sig}");
                        return 1;
                    }
                    if status.code() == Some(0) {
                        println!("NOT REPRODUCED: case {idx} completed in a fresh process");
                        return 0;
                    }
                    println!("VIOLATION property={} replay={}", body["property"].as_str().unwrap_or("C01"), path);
                    println!("  signature: process:exited with {:?}", status.code());
                    return 1;
                }
                Ok(None) => {
                    let limit = if tier == "thorough" { CASE_TIMEOUT_THOROUGH } else { CASE_TIMEOUT };
                    if t0.elapsed() > limit {
                        let _ = child.kill();
                        let _ = child.wait();
                        println!("VIOLATION property={} replay={}", body["property"].as_str().unwrap_or("C03"), path);
                        println!("  signature: process:no answer within {} s", limit.as_secs());
                        return 1;
                    }
                    std::thread::sleep(Duration::from_millis(50));
                }
                Err(e) => {
                    eprintln!("harness error: {e}");
                    return 2;
                }
            }
        }
    }
    let c: &'static dyn Check = *check;
    let payload = payload.clone();
    let expected_sig = body["signature"].as_str().unwrap_or("").to_string();
    let res = crate::sim::on_big_stack(move || c.replay(&payload));
    match res {
        Ok(Some(v)) => {
            if v.signature == expected_sig {
                println!("VIOLATION property={} replay={}", v.property, path);
                println!("  signature: {}", v.signature);
                println!("  detail: {}", serde_json::to_string(&v.detail).unwrap_or_default());
                1
            } else {
                println!("REPRODUCED WITH A DIFFERENT SIGNATURE: expected `{expected_sig}`, got `{}`", v.signature);
                println!("VIOLATION property={} replay={}", v.property, path);
                1
            }
        }
        Ok(None) => {
            println!("NOT REPRODUCED: the recorded scenario no longer violates {}", body["property"]);
            0
        }
        Err(e) => {
            eprintln!("harness error: {e}");
            2
        }
    }
}


/// `slx-sim selftest determinism`: the same seeds, twice, in different
/// processes and with different worker counts; every fingerprint must agree.
pub fn selftest_determinism(check: &'static dyn Check, tier: Tier) -> i32 {
    let base = base_seed();
    let t0 = Instant::now();
    println!("selftest determinism: {} cases, VERIF_SEED={base}", check.cases(tier));
    let a = run_pool(check, tier, base, 16, None);
    let b = run_pool(check, tier, base, 3, None);
    let mut bad = 0u64;
    for (idx, fa) in &a.fingerprints {
        if b.fingerprints.get(idx) != Some(fa) {
            bad += 1;
            if bad <= 10 {
                eprintln!("harness error: case {idx} (seed {}) is not deterministic: {:x?} vs {:x?}", case_seed(base, "D00", *idx), fa, b.fingerprints.get(idx));
            }
        }
    }
    for e in a.harness_errors.iter().chain(b.harness_errors.iter()).take(10) {
        eprintln!("harness error: {e}");
    }
    let crashed = a.violations.len() + b.violations.len();
    println!(
        "selftest determinism: cases={} runs={}+{} compared={} mismatches={} script_replays={} harness_errors={} crashed_cases={} wall={:.1}s",
        a.cases,
        a.runs,
        b.runs,
        a.fingerprints.len(),
        bad,
        a.probes.get("trace_replayed_as_script").copied().unwrap_or(0),
        a.harness_errors.len() + b.harness_errors.len(),
        crashed,
        t0.elapsed().as_secs_f64()
    );
    if bad > 0 || !a.harness_errors.is_empty() || !b.harness_errors.is_empty() || a.fingerprints.len() != b.fingerprints.len() {
        2
    } else {
        0
    }
}
