//! C03 – the analysis halts, and execution stays within the configured
//! bounds: bounded liveness in simulated steps (the poll_every = 1 watchdog
//! clock) plus invariants over the recorded VM history, under every schedule.

use serde_json::{json, Value};
use storage_layout_extractor::verif::{Site, MENU_ALL, SITE_NAMES};

use crate::{
    asm,
    framework::{CaseResult, Check, CheckInfo, Tier, Violation},
    rng::Rng,
    shrink,
    sim::{self, Api, Class, Knobs, Outcome, RunOpts, Scenario, Sched, WdPlan},
    workload::{self, Corpus},
};

pub struct C03Check;
pub static C03: C03Check = C03Check;

/// Steps allowed to the type checker (lifting, assignment, inference,
/// unification, layout) on top of the VM bound. Far above what the
/// unifier's own round limit permits on programs of this size.
const TC_BUDGET: u64 = 3_000_000;
/// Knobs are chosen so that the VM bound implied by the property stays below
/// this many steps.
const MAX_VM_BOUND: u64 = 1_500_000;

thread_local! {
    static CORPUS: Corpus = Corpus::load("/verif/corpus");
}

fn gen_program(r: &mut Rng) -> (Vec<u8>, &'static str) {
    let roll = r.below(100);
    if roll < 12 {
        // values that double at every step: the size limit has to hold them
        // down or lifting and inference never finish
        (workload::gen_growth(r), "growth_chain")
    } else if roll < 50 {
        (workload::gen_cfg(r), "cfg")
    } else if roll < 80 {
        (workload::gen_storage(r), "storage")
    } else if roll < 90 {
        (workload::gen_stack(r, false), "stack")
    } else {
        (CORPUS.with(|c| workload::gen_corpus(r, c, 700)), "corpus")
    }
}

/// (1 + F*J) * (L*I + 1): the number of VM steps implied by the three limits.
pub fn vm_bound(code: &[u8], k: &Knobs) -> u64 {
    let l = code.len() as u64;
    let j = asm::jumpdest_offsets(code).len() as u64;
    (1 + k.max_forks as u64 * j).saturating_mul(l * k.max_iterations as u64 + 1)
}

fn gen_knobs(r: &mut Rng, code: &[u8]) -> Knobs {
    let mut k = Knobs {
        // Low limits often: the gas bound only bites when threads actually
        // run out, ideally several fork generations deep.
        gas_limit:        match r.below(10) {
            0..=3 => r.log_range(100, 3_000) as usize,
            4..=6 => 30_000_000,
            _ => r.log_range(200, 30_000_000) as usize,
        },
        // the smallest limits often: off-by-one and bookkeeping slips show
        // at 1 and 2
        max_iterations:   if r.chance(1, 3) { r.range(1, 2) as usize } else { r.range(1, 12) as usize },
        max_forks:        if r.chance(1, 3) { r.range(1, 2) as usize } else { r.range(1, 60) as usize },
        value_size_limit: *r.pick(&[10usize, 50, 250, 250, 1000]),
        mem_op_limit:     *r.pick(&[32usize, 394, 4096]),
        permissive:       r.chance(1, 2),
    };
    // Keep the implied bound tractable by lowering the fork limit first.
    while vm_bound(code, &k) > MAX_VM_BOUND && k.max_forks > 1 {
        k.max_forks = (k.max_forks / 2).max(1);
    }
    while vm_bound(code, &k) > MAX_VM_BOUND && k.max_iterations > 1 {
        k.max_iterations -= 1;
    }
    k
}

fn scenario(code: &[u8], knobs: &Knobs, sched: &Sched) -> Scenario {
    let bound = vm_bound(code, knobs);
    Scenario {
        code:           code.to_vec(),
        knobs:          knobs.clone(),
        sched:          sched.clone(),
        // Copy loops add at most mem_op_limit/32 + 1 steps per instruction.
        wd:             WdPlan::budget(1, bound.saturating_mul(2 + knobs.mem_op_limit as u64 / 32).saturating_add(TC_BUDGET)),
        api:            Api::VmThenTc { continue_on_error: true },
        poisoned_table: false,
    }
}

/// Evaluates the bounds on one run. Returns (signature, detail).
pub fn oracles(sc: &Scenario, out: &Outcome) -> Option<(String, Value)> {
    let k = &sc.knobs;
    if out.class == Class::Panic {
        // C01's business; not judged here.
        return None;
    }
    let Some(vm) = &out.vm else {
        return None;
    };
    let j = vm.jumpdests as u64;
    // 1. per-thread visits
    if vm.max_visit > k.max_iterations {
        return Some((
            format!("visit-limit-exceeded:by-{}", vm.max_visit - k.max_iterations),
            json!({"max_visit_count": vm.max_visit, "limit": k.max_iterations, "offset": vm.max_visit_at}),
        ));
    }
    // 2. forks per jump destination
    if vm.max_fork > k.max_forks {
        return Some((
            format!("fork-limit-exceeded:by-{}", vm.max_fork - k.max_forks),
            json!({"max_fork_count": vm.max_fork, "limit": k.max_forks, "offset": vm.max_fork_at}),
        ));
    }
    // 2b. the same, counted from the fork points of the stored states rather
    //     than read from the VM's own counter
    if vm.max_forks_seen > k.max_forks {
        return Some((
            format!("fork-limit-exceeded:by-{}:counted-from-states", vm.max_forks_seen - k.max_forks),
            json!({"forks_to_target": vm.max_forks_seen, "limit": k.max_forks, "target": vm.max_forks_seen_at, "vm_counter_says": vm.max_fork}),
        ));
    }
    // 3. threads ever created
    let threads = (vm.states + vm.remaining) as u64;
    if threads > 1 + k.max_forks as u64 * j {
        return Some((
            "thread-count-exceeded".to_string(),
            json!({"threads": threads, "limit": 1 + k.max_forks as u64 * j, "jumpdests": j, "fork_limit": k.max_forks}),
        ));
    }
    // 4. gas: a thread is retired right after the instruction that crosses
    //    the limit, and a failing instruction is counted as visited but not
    //    charged: two instructions of slack.
    let gas_slack = 2 * vm.max_min_gas_cost as u128;
    if vm.max_gas > k.gas_limit as u128 + gas_slack {
        return Some((
            "gas-limit-overrun".to_string(),
            json!({"min_gas_consumed": vm.max_gas.to_string(), "limit": k.gas_limit, "slack": gas_slack.to_string()}),
        ));
    }
    // 5. halting within the implied number of steps
    let vm_steps = out.record.site_ticks[Site::VmMain as usize];
    let bound = vm_bound(&sc.code, k);
    if vm_steps > bound {
        return Some((
            "vm-steps-exceed-implied-bound".to_string(),
            json!({"vm_steps": vm_steps, "bound": bound, "threads": threads}),
        ));
    }
    if out.budget_exhausted {
        let site = out.first_true_site.map_or("none", |s| SITE_NAMES[s]);
        return Some((
            format!("did-not-halt:{site}"),
            json!({"polls": out.polls, "stopped_in": site, "unify_rounds": out.record.unify_rounds, "vm_steps": vm_steps}),
        ));
    }
    None
}

fn account(res: &mut CaseResult, sc: &Scenario, out: &Outcome) {
    res.runs += 1;
    res.steps += out.polls;
    res.traces.push(out.record.trace_digest);
    if out.record.permuted_events > 0 {
        res.fault("schedule_permutation_applied");
    }
    if let Some(vm) = &out.vm {
        if vm.states >= 2 {
            res.probe("two_or_more_vm_threads");
            let mut h = std::collections::hash_map::DefaultHasher::new();
            std::hash::Hash::hash(&(&sc.code, &sc.knobs.max_forks, &sc.knobs.max_iterations, &sc.knobs.gas_limit, out.record.trace_digest), &mut h);
            res.nontrivial.push(std::hash::Hasher::finish(&h));
        }
        if vm.max_visit == sc.knobs.max_iterations {
            res.probe("iteration_limit_reached");
        }
        if vm.max_fork == sc.knobs.max_forks {
            res.probe("fork_limit_reached");
        }
        if !vm.exec_ok {
            res.fault("type_checker_run_on_partial_state_after_execution_errors");
        }
    }
    if out.errors.iter().any(|e| e.kind == "GasLimitExceeded") {
        res.probe("gas_limit_hit");
    }
    if out.record.unify_rounds > 3 {
        res.probe("more_than_three_unify_rounds");
    }
    if out.record.unify_rounds >= 100 {
        res.probe("unifier_round_limit_reached");
    }
}

impl Check for C03Check {
    fn info(&self) -> CheckInfo {
        CheckInfo {
            id: "C03",
            level: "exploration",
            rule: "case = one generated program (control-flow shapes 38%: tight/nested loops, self-jumps, stack-growing loops, fork bombs, jump tables, read-mask-write cycles, loops around copies; storage idioms 30%; value-growth chains and deeply nested types 12%; stack-aware 10%; mutated corpus 10%; the first 340 cases: every combination of one of 34 opcode chains applied to its own result 36..65 times with one of 10 uses of the grown value) x knob swarm (iterations 1..12, forks 1..60, gas 200..30M log-uniform; fork/iteration limits lowered until the implied VM bound is <= 1.5M steps) x 3 schedules (natural, natural with other keys, seeded adversarial); the VM is driven through VM::new/execute so that stored states, visit counters and fork counters can be read, then the type checker runs on whatever state execution left. evaluations = simulated runs; non-trivial = the run ended with >= 2 VM threads; distinct = distinct (program, limits, schedule trace), counted with a hash set",
            assumptions: &[
                "simulated time is the poll count of a poll_every = 1 watchdog; the VM bound (1+F*J)*(L*I+1) is implied by the three limits, the type-checker budget of 3M steps is empirical (the unifier's own limit is 100 rounds)",
                "gas oracle allows two instructions of slack (retire-after-crossing, failing instruction visited but not charged)",
                "a loop that never polls is caught by the parent's 180 s wall-clock guard, not by the step budget",
            ],
            components: super::components(),
        }
    }

    fn cases(&self, tier: Tier) -> u64 {
        match tier {
            Tier::Quick => 8_000,
            Tier::Thorough => 150_000,
        }
    }

    fn run_case(&self, idx: u64, seed: u64, _tier: Tier) -> CaseResult {
        let mut res = CaseResult::default();
        let mut r = Rng::new(seed);
        // The first cases go through every (opcode applied to its own result
        // x use of the grown value) combination once, whatever the seed.
        let (mut code, family) = if idx < workload::GROWTH_COMBOS { (workload::gen_growth_combo(idx, &mut r), "growth_combination") } else { gen_program(&mut r) };
        if r.chance(1, 10) {
            workload::end_on_last_jumpdest(&mut code);
        }
        let mut knobs = gen_knobs(&mut r, &code);
        if idx < workload::GROWTH_COMBOS {
            // the chain must be allowed to get long
            knobs.value_size_limit = *r.pick(&[250usize, 1000]);
            knobs.gas_limit = 30_000_000;
        }
        res.probe(&format!("workload_{family}"));
        let scheds = [Sched::natural(0), Sched::natural(r.next()), Sched::adversarial(r.next(), 700, MENU_ALL)];
        for sched in &scheds {
            let sc = scenario(&code, &knobs, sched);
            let out = sim::run(&sc, &RunOpts::default());
            account(&mut res, &sc, &out);
            if let Some((sig, _)) = oracles(&sc, &out) {
                // Minimise the program under the same limits and schedule.
                let small = shrink::minimise(&code, 300, |c| {
                    let s2 = scenario(c, &knobs, sched);
                    let o2 = sim::run(&s2, &RunOpts::default());
                    oracles(&s2, &o2).map(|x| x.0).as_deref() == Some(sig.as_str())
                });
                let mut s2 = scenario(&small, &knobs, sched);
                // Default limits if the violation survives them.
                let mut s3 = scenario(&small, &Knobs::default(), sched);
                s3.wd = WdPlan::budget(1, vm_bound(&small, &Knobs::default()).saturating_mul(4).saturating_add(TC_BUDGET).min(20_000_000));
                let o3 = sim::run(&s3, &RunOpts::default());
                if oracles(&s3, &o3).map(|x| x.0).as_deref() == Some(sig.as_str()) {
                    s2 = s3;
                }
                let o2 = sim::run(&s2, &RunOpts::default());
                let (sig2, detail) = oracles(&s2, &o2).unwrap_or((sig.clone(), json!({})));
                res.violations.push(Violation {
                    property:  "C03".into(),
                    signature: sig2,
                    detail:    json!({"case": idx, "seed": seed, "program": hex::encode(&s2.code), "original_len": code.len(), "knobs": s2.knobs, "schedule": s2.sched.label(), "explanation": detail}),
                    replay:    json!({"check": "C03", "kind": "single", "scenario": s2}),
                });
                break;
            }
        }
        if idx < 4 {
            res.sample = Some(json!({"case": idx, "seed": seed, "workload": family, "program": hex::encode(&code), "knobs": knobs, "implied_vm_bound": vm_bound(&code, &knobs)}));
        }
        res
    }

    fn replay(&self, payload: &Value) -> Result<Option<Violation>, String> {
        let sc: Scenario = serde_json::from_value(payload["scenario"].clone()).map_err(|e| e.to_string())?;
        let out = sim::run(&sc, &RunOpts::default());
        Ok(oracles(&sc, &out).map(|(sig, detail)| Violation {
            property:  "C03".into(),
            signature: sig,
            detail:    json!({"program": hex::encode(&sc.code), "knobs": sc.knobs, "explanation": detail}),
            replay:    payload.clone(),
        }))
    }
}
