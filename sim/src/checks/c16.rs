//! C16 – combining evidence about one value is independent of order and
//! grouping. The finite domain of the property's quantifier is enumerated
//! completely; every multiset is delivered to the real unifier in every order
//! (forced at the fold's scheduling point), split over two equated variables
//! (grouping by union), and split over two variables that only become equal
//! in a later round (grouping by rounds).

use std::collections::BTreeSet;

use serde_json::{json, Value};
use storage_layout_extractor::{
    tc::expression::{TypeExpression, WordUse, TE},
    verif,
};

use crate::{
    evidence::{self, run_unify, Ev, EvidenceSet, UnifyOpts, UnifyOutcome},
    framework::{CaseResult, Check, CheckInfo, Tier, Violation},
    sim::{DecisionSer, PolicySpec, Sched, ScriptEntry},
};

pub struct C16Check;
pub static C16: C16Check = C16Check;

const A: usize = 0;
const B: usize = 1;

pub fn domain() -> Vec<Ev> {
    let mut d = vec![Ev::Any, Ev::Bytes];
    for usage in [WordUse::Bytes, WordUse::Numeric, WordUse::UnsignedNumeric, WordUse::SignedNumeric] {
        for width in [None, Some(8), Some(32), Some(160), Some(192), Some(256)] {
            d.push(Ev::word(width, usage));
        }
    }
    d.push(Ev::word(Some(8), WordUse::Bool));
    d.push(Ev::word(Some(160), WordUse::Address));
    d.push(Ev::word(Some(32), WordUse::Selector));
    d.push(Ev::word(Some(192), WordUse::Function));
    d.push(Ev::Mapping { key: A, value: B });
    d.push(Ev::Mapping { key: B, value: A });
    d.push(Ev::DynArray { element: A });
    d.push(Ev::DynArray { element: B });
    d.push(Ev::FixedArray { element: A, length: 3 });
    d.push(Ev::FixedArray { element: B, length: 3 });
    d.push(Ev::FixedArray { element: A, length: 5 });
    d.push(Ev::Conflict);
    d
}

fn choose(n: u64, k: u64) -> u64 {
    let mut r = 1u64;
    for i in 0..k {
        r = r * (n - i) / (i + 1);
    }
    r
}

/// The idx-th k-subset of 0..n in lexicographic order.
fn unrank(mut idx: u64, n: usize, k: usize) -> Vec<usize> {
    let mut out = Vec::new();
    let mut start = 0usize;
    for pos in 0..k {
        let mut c = start;
        loop {
            let rest = choose((n - c - 1) as u64, (k - pos - 1) as u64);
            if idx < rest {
                break;
            }
            idx -= rest;
            c += 1;
        }
        out.push(c);
        start = c + 1;
    }
    out
}

pub fn multiset(idx: u64, tier: Tier) -> Option<Vec<Ev>> {
    let d = domain();
    let n = d.len();
    let pairs = choose(n as u64, 2);
    let triples = choose(n as u64, 3);
    let quads = choose(n as u64, 4);
    let pick = |ix: Vec<usize>| ix.into_iter().map(|i| d[i].clone()).collect::<Vec<_>>();
    if idx < pairs {
        return Some(pick(unrank(idx, n, 2)));
    }
    if idx < pairs + triples {
        return Some(pick(unrank(idx - pairs, n, 3)));
    }
    if tier == Tier::Thorough && idx < pairs + triples + quads {
        return Some(pick(unrank(idx - pairs - triples, n, 4)));
    }
    None
}

fn name_of(o: &UnifyOutcome, x: usize, target: usize) -> &'static str {
    if o.same_class(x, A) {
        "a"
    } else if o.same_class(x, B) {
        "b"
    } else if o.same_class(x, target) {
        "self"
    } else {
        "other"
    }
}

/// The resolved type of `v` with conflict payloads erased and type variables
/// replaced by the class of the named variables they ended up in.
fn norm_te(o: &UnifyOutcome, e: &TypeExpression, target: usize) -> String {
    match e {
        TE::Mapping { key, value } => format!(
            "Mapping({},{})",
            name_of(o, evidence::tv_index(*key), target),
            name_of(o, evidence::tv_index(*value), target)
        ),
        TE::DynamicArray { element } => format!("DynArray({})", name_of(o, evidence::tv_index(*element), target)),
        TE::FixedArray { element, length } => format!("FixedArray({})[{length}]", name_of(o, evidence::tv_index(*element), target)),
        other => verif::kind_of(other),
    }
}

fn norm_var(o: &UnifyOutcome, v: usize, target: usize) -> String {
    match o.resolved(v) {
        Ok(e) => norm_te(o, &e, target),
        Err(why) => format!("Unresolved({why})"),
    }
}

pub fn outcome_of(o: &UnifyOutcome, target: usize) -> String {
    if let Some(p) = &o.panic {
        return format!("Panic({})", p.signature);
    }
    if o.budget_exhausted {
        return "DidNotTerminate".into();
    }
    if let Some(e) = &o.error {
        return format!("Error({e})");
    }
    format!(
        "{} | a{}b | a:{} b:{}",
        norm_var(o, target, target),
        if o.same_class(A, B) { "=" } else { "!=" },
        norm_var(o, A, target),
        norm_var(o, B, target)
    )
}

fn permutations(n: usize) -> Vec<Vec<u32>> {
    let mut out = Vec::new();
    let mut cur: Vec<u32> = (0..n as u32).collect();
    fn rec(k: usize, cur: &mut Vec<u32>, out: &mut Vec<Vec<u32>>) {
        if k == cur.len() {
            out.push(cur.clone());
            return;
        }
        for i in k..cur.len() {
            cur.swap(k, i);
            rec(k + 1, cur, out);
            cur.swap(k, i);
        }
    }
    rec(0, &mut cur, &mut out);
    out
}

fn splits(n: usize) -> Vec<(Vec<usize>, Vec<usize>)> {
    // All ways to split 0..n into two non-empty groups (unordered).
    let mut out = Vec::new();
    for mask in 1..(1u32 << n) - 1 {
        if mask & 1 == 0 {
            continue; // element 0 always in the first group: unordered splits
        }
        let g1: Vec<usize> = (0..n).filter(|i| mask & (1 << i) != 0).collect();
        let g2: Vec<usize> = (0..n).filter(|i| mask & (1 << i) == 0).collect();
        out.push((g1, g2));
    }
    out
}

#[derive(Clone, Debug)]
pub struct Delivery {
    pub family: &'static str,
    pub label:  String,
    pub ev:     EvidenceSet,
    pub sched:  Sched,
    pub target: usize,
    pub mode:   evidence::Delivery,
}

fn fold_site_hash() -> u64 {
    // Same FNV-1a as the hook's `str_hash("fold")`.
    let mut h: u64 = 0xcbf2_9ce4_8422_2325;
    for b in b"fold" {
        h ^= u64::from(*b);
        h = h.wrapping_mul(0x0000_0100_0000_01b3);
    }
    h
}

pub fn deliveries(e: &[Ev]) -> Vec<Delivery> {
    let n = e.len();
    let mut out = Vec::new();
    // --- order: one variable, every fold order forced -----------------------
    let single = EvidenceSet {
        n_vars:     3,
        judgements: e.iter().map(|x| (2usize, x.clone())).collect(),
    };
    // Find the fold event of the class (a dry run with the trace on).
    let dry = run_unify(
        &single,
        &Sched::natural(0),
        &UnifyOpts {
            record_trace: true,
            ..UnifyOpts::default()
        },
    );
    let fold_events: Vec<u32> = dry
        .record
        .trace
        .iter()
        .filter(|ev| ev.site == fold_site_hash() && ev.n as usize == n)
        .map(|ev| ev.event)
        .collect();
    for perm in permutations(n) {
        let entries: Vec<ScriptEntry> = fold_events
            .iter()
            .take(1)
            .map(|ev| ScriptEntry {
                event:    *ev,
                site:     fold_site_hash(),
                site_str: "fold".into(),
                n:        n as u32,
                decision: DecisionSer::Perm(perm.clone()),
            })
            .collect();
        out.push(Delivery {
            family: "order",
            label:  format!("order{perm:?}"),
            ev:     single.clone(),
            sched:  Sched {
                hash_keys: 0,
                policy:    PolicySpec::Scripted(entries),
            },
            target: 2,
            mode:   evidence::Delivery::Plain,
        });
    }
    // --- record: the order in which the judgements are recorded ------------
    for perm in permutations(n) {
        if perm.iter().enumerate().all(|(i, p)| i as u32 == *p) {
            continue;
        }
        out.push(Delivery {
            family: "record",
            label:  format!("record{perm:?}"),
            ev:     EvidenceSet {
                n_vars:     3,
                judgements: perm.iter().map(|i| (2usize, e[*i as usize].clone())).collect(),
            },
            sched:  Sched::natural(0),
            target: 2,
            mode:   evidence::Delivery::Plain,
        });
    }
    // Also under different hash keys (the base order itself moves).
    for k in 1..=2u64 {
        out.push(Delivery {
            family: "order",
            label:  format!("natural({k})"),
            ev:     single.clone(),
            sched:  Sched::natural(k),
            target: 2,
            mode:   evidence::Delivery::Plain,
        });
    }
    // --- grouping by union / by rounds ---------------------------------------
    for (g1, g2) in splits(n) {
        let mut j: Vec<(usize, Ev)> = Vec::new();
        for i in &g1 {
            j.push((2, e[*i].clone()));
        }
        for i in &g2 {
            j.push((3, e[*i].clone()));
        }
        let mut union = j.clone();
        union.push((2, Ev::Equal { other: 3 }));
        out.push(Delivery {
            family: "union",
            label:  format!("union{g1:?}|{g2:?}"),
            ev:     EvidenceSet {
                n_vars:     4,
                judgements: union,
            },
            sched:  Sched::natural(0),
            target: 2,
            mode:   evidence::Delivery::Plain,
        });
        out.push(Delivery {
            family: "union",
            label:  format!("union-infer_many{g1:?}|{g2:?}"),
            // (the equality stated from the other side: about the variable
            // registered later, naming the one registered first)
            ev:     {
                let mut ev = out.last().expect("just pushed").ev.clone();
                ev.judgements.pop();
                ev.judgements.push((3, Ev::Equal { other: 2 }));
                ev
            },
            sched:  Sched::natural(0),
            target: 2,
            mode:   evidence::Delivery::EqualitiesThroughInferMany,
        });
        let mut rounds = j;
        rounds.push((4, Ev::DynArray { element: 2 }));
        rounds.push((5, Ev::DynArray { element: 3 }));
        rounds.push((4, Ev::Equal { other: 5 }));
        out.push(Delivery {
            family: "rounds",
            label:  format!("rounds{g1:?}|{g2:?}"),
            ev:     EvidenceSet {
                n_vars:     6,
                judgements: rounds,
            },
            sched:  Sched::natural(0),
            target: 2,
            mode:   evidence::Delivery::Plain,
        });
    }
    out
}

/// The same recorded evidence, unified once at the end or also once in the
/// middle. Stage one: the pieces split over two variables that are the
/// elements of two equated dynamic arrays (so the unifier itself derives that
/// the two are equal). Stage two: the equality is also stated outright, and
/// the arrays' class receives a mapping, which makes *it* contradictory - the
/// stated equality is then the only thing that still holds the two together.
/// Unification starts from the recorded evidence each time, so the extra run
/// in the middle must not be observable.
fn staged_disagreement(e: &[Ev], res: &mut Option<&mut CaseResult>) -> Option<(String, Value)> {
    for (g1, g2) in splits(e.len()) {
        let mut j: Vec<(usize, Ev)> = Vec::new();
        for i in &g1 {
            j.push((2, e[*i].clone()));
        }
        for i in &g2 {
            j.push((3, e[*i].clone()));
        }
        j.push((4, Ev::DynArray { element: 2 }));
        j.push((5, Ev::DynArray { element: 3 }));
        j.push((4, Ev::Equal { other: 5 }));
        let first_stage = j.len();
        j.push((2, Ev::Equal { other: 3 }));
        j.push((4, Ev::Mapping { key: 2, value: 3 }));
        let ev = EvidenceSet {
            n_vars:     6,
            judgements: j,
        };
        let at_once = run_unify(&ev, &Sched::natural(0), &UnifyOpts::default());
        // ... through the free function, and through `TypeChecker::unify`
        for (mode, how) in [(evidence::Delivery::Staged, "a unification"), (evidence::Delivery::StagedThroughTypeChecker, "TypeChecker::unify")] {
            let staged = run_unify(
                &ev,
                &Sched::natural(0),
                &UnifyOpts {
                    mode,
                    staged_at: Some(first_stage),
                    ..UnifyOpts::default()
                },
            );
            if let Some(r) = res.as_deref_mut() {
                r.runs += 1;
                r.steps += staged.polls;
                r.fault("unified_between_two_deliveries");
            }
            let (a, b) = (outcome_of(&at_once, 2), outcome_of(&staged, 2));
            if a != b {
                let mut kinds: Vec<String> = e.iter().map(Ev::kind).collect();
                kinds.sort();
                let short = |s: &str| s.split(" | ").next().unwrap_or("").to_string();
                return Some((
                    format!("staged:[{}] delivered at once gives {} but with {how} in between {}", kinds.join(", "), short(&a), short(&b)),
                    json!({"evidence": kinds, "split": [g1, g2], "at_once": a, "staged": b}),
                ));
            }
        }
        if let Some(r) = res.as_deref_mut() {
            r.runs += 1;
            r.steps += at_once.polls;
        }
        // The plain two-stage form as well: the first group, a unification,
        // the second group - all on one variable.
        let mut one: Vec<(usize, Ev)> = Vec::new();
        for i in g1.iter().chain(g2.iter()) {
            one.push((2, e[*i].clone()));
        }
        let one = EvidenceSet {
            n_vars:     3,
            judgements: one,
        };
        let at_once = run_unify(&one, &Sched::natural(0), &UnifyOpts::default());
        for (mode, how) in [(evidence::Delivery::Staged, "a unification"), (evidence::Delivery::StagedThroughTypeChecker, "TypeChecker::unify")] {
            let staged = run_unify(
                &one,
                &Sched::natural(0),
                &UnifyOpts {
                    mode,
                    staged_at: Some(g1.len()),
                    ..UnifyOpts::default()
                },
            );
            if let Some(r) = res.as_deref_mut() {
                r.runs += 1;
                r.steps += staged.polls;
            }
            let (a, b) = (outcome_of(&at_once, 2), outcome_of(&staged, 2));
            if a != b {
                let mut kinds: Vec<String> = e.iter().map(Ev::kind).collect();
                kinds.sort();
                let short = |s: &str| s.split(" | ").next().unwrap_or("").to_string();
                return Some((
                    format!("staged:[{}] stated at once gives {} but with {how} after the first part {}", kinds.join(", "), short(&a), short(&b)),
                    json!({"evidence": kinds, "split": [g1, g2], "at_once": a, "staged": b}),
                ));
            }
        }
    }
    None
}

/// Runs every delivery of `e`; returns (signature, detail) if they disagree.
pub fn evaluate(e: &[Ev], res: Option<&mut CaseResult>) -> Option<(String, Value)> {
    let ds = deliveries(e);
    let mut outcomes: Vec<(String, &'static str, String)> = Vec::new();
    let mut res = res;
    if let Some(found) = staged_disagreement(e, &mut res) {
        return Some(found);
    }
    for d in &ds {
        let o = run_unify(
            &d.ev,
            &d.sched,
            &UnifyOpts {
                mode: d.mode,
                ..UnifyOpts::default()
            },
        );
        if let Some(r) = res.as_deref_mut() {
            r.runs += 1;
            r.steps += o.polls;
            r.fold_orders.push(o.record.fold_digest);
            if o.record.permuted_events > 0 {
                r.fault("fold_order_forced");
            }
            match d.family {
                "union" => r.fault("grouping_by_union"),
                "rounds" => r.fault("grouping_by_rounds"),
                _ => {}
            }
            if o.record.unify_rounds > 2 {
                r.probe("more_than_two_rounds");
            }
        }
        outcomes.push((outcome_of(&o, d.target), d.family, d.label.clone()));
    }
    let distinct: BTreeSet<String> = outcomes.iter().map(|o| o.0.clone()).collect();
    if distinct.len() <= 1 {
        return None;
    }
    // Which delivery families disagree with the canonical (first) delivery?
    let reference = outcomes[0].0.clone();
    let mut fams: BTreeSet<&'static str> = BTreeSet::new();
    let mut examples: Vec<Value> = Vec::new();
    for (o, fam, label) in &outcomes {
        if *o != reference {
            if fams.insert(fam) || examples.len() < 4 {
                examples.push(json!({"delivery": label, "outcome": o}));
            }
        }
    }
    let mut kinds: Vec<String> = e.iter().map(Ev::kind).collect();
    kinds.sort();
    let outs: Vec<String> = distinct.iter().map(|s| s.split(" | ").next().unwrap_or("").to_string()).collect::<BTreeSet<_>>().into_iter().collect();
    // The signature names the multiset, what the single canonical fold gives,
    // which delivery families disagree with it, and all outcomes seen: a
    // change that moves any of these is a different violation.
    let sig = format!(
        "combine:[{}] fold gives {} but {{{}}} differ -> {{{}}}",
        kinds.join(", "),
        reference.split(" | ").next().unwrap_or(""),
        fams.iter().copied().collect::<Vec<_>>().join(","),
        outs.join(" | ")
    );
    Some((sig, json!({"evidence": kinds, "reference_delivery": outcomes[0].2, "reference_outcome": reference, "disagreeing": examples, "all_outcomes": distinct})))
}

/// Split points of the shared-field scenarios.
const FIELD_SPLITS: [usize; 5] = [16, 32, 64, 96, 112];

fn shared_field_cases() -> u64 {
    (FIELD_SPLITS.len() * FIELD_SPLITS.len()) as u64
}

/// Evidence about one value that is found in two places in the same round: a
/// 128-bit field `a` of two different words, each of which is also seen with a
/// layout that cuts the field (at `s1` in one word, at `s2` in the other). Both
/// refinements are about `a`; they have to be combined whatever order the two
/// words are folded in, and the result has to be what the same two
/// refinements give when they are stated about `a` directly.
fn shared_field(s1: usize, s2: usize, res: &mut CaseResult) -> Option<(String, Value)> {
    let sp = |v: usize, o: usize, w: usize| (v, o, w);
    // variables: 0 = a, 1..=6 = b c d e f g, 7 = word 1, 8 = word 2
    let shared = EvidenceSet {
        n_vars:     9,
        judgements: vec![
            (7, Ev::Packed { spans: vec![sp(0, 0, 128), sp(1, 128, 128)], is_struct: false }),
            (7, Ev::Packed { spans: vec![sp(2, 0, s1), sp(3, s1, 256 - s1)], is_struct: false }),
            (8, Ev::Packed { spans: vec![sp(0, 0, 128), sp(4, 128, 128)], is_struct: false }),
            (8, Ev::Packed { spans: vec![sp(5, 0, s2), sp(6, s2, 256 - s2)], is_struct: false }),
        ],
    };
    // variables: 0 = a, 1..=4 = the parts
    let direct = EvidenceSet {
        n_vars:     5,
        judgements: vec![
            (0, Ev::Packed { spans: vec![sp(1, 0, s1), sp(2, s1, 128 - s1)], is_struct: false }),
            (0, Ev::Packed { spans: vec![sp(3, 0, s2), sp(4, s2, 128 - s2)], is_struct: false }),
        ],
    };
    let layout = |o: &UnifyOutcome| -> String {
        if let Some(p) = &o.panic {
            return format!("Panic({})", p.signature);
        }
        if o.budget_exhausted {
            return "DidNotTerminate".into();
        }
        match o.data[o.class[0]].as_deref() {
            Some([TE::Packed { types, .. }]) => {
                let mut l: Vec<(usize, usize)> = types.iter().map(|s| (s.offset, s.size)).collect();
                l.sort_unstable();
                format!("{l:?}")
            }
            Some(other) => format!("{:?}", other.iter().map(evidence::te_kind).collect::<Vec<_>>()),
            None => "nothing".into(),
        }
    };
    let mut scheds: Vec<Sched> = (0..8).map(Sched::natural).collect();
    scheds.push(Sched::adversarial(1, 1000, storage_layout_extractor::verif::MENU_REVERSE));
    for k in 1..=6 {
        scheds.push(Sched::adversarial(k, 1000, storage_layout_extractor::verif::MENU_ALL));
    }
    let reference = layout(&run_unify(&direct, &Sched::natural(0), &UnifyOpts::default()));
    res.runs += 1;
    let mut seen: BTreeSet<String> = BTreeSet::new();
    let mut example = None;
    for sched in &scheds {
        let o = run_unify(&shared, sched, &UnifyOpts::default());
        res.runs += 1;
        res.steps += o.polls;
        res.fold_orders.push(o.record.fold_digest);
        res.fault("one_value_refined_from_two_classes_in_one_round");
        let l = layout(&o);
        if l != reference && example.is_none() {
            example = Some(sched.label());
        }
        seen.insert(l);
    }
    if seen.len() == 1 && seen.contains(&reference) {
        return None;
    }
    Some((
        format!("shared-field:cuts at {s1} and {s2}: stated directly gives {reference}, found in two words gives {{{}}}", seen.iter().cloned().collect::<Vec<_>>().join(" | ")),
        json!({"cuts": [s1, s2], "direct": reference, "shared": seen, "first_differing_schedule": example}),
    ))
}

/// The words stated about the covered field (all compatible with a 32-bit
/// field that is also read as two 16-bit halves).
fn covered_field_words() -> Vec<Ev> {
    vec![
        Ev::word(Some(32), WordUse::UnsignedNumeric),
        Ev::word(Some(32), WordUse::Bytes),
        Ev::word(Some(32), WordUse::Numeric),
        Ev::word(None, WordUse::UnsignedNumeric),
        Ev::word(None, WordUse::Bytes),
        Ev::word(None, WordUse::Numeric),
        Ev::Any,
    ]
}

fn covered_field_cases() -> u64 {
    let n = covered_field_words().len() as u64;
    n + n * (n - 1) / 2
}

/// One 32-bit field `b` of a word that is also read as two 16-bit halves
/// (`packed[(a,0,16),(c,16,16)]` and `packed[(b,0,32)]` on the same value),
/// with one or two words stated about `b`: both on `b`, or the second on a
/// variable equated with `b`. The merge of the two encodings refines `b` in a
/// later round than the one that folds the words, so this is grouping by
/// rounds with fresh variables in play; the outcome for `b` and for the word
/// must not depend on the grouping or on the schedule.
fn covered_field(k: usize, res: &mut CaseResult) -> Option<(String, Value)> {
    let words = covered_field_words();
    let n = words.len();
    let (e1, e2): (Ev, Option<Ev>) = if k < n {
        (words[k].clone(), None)
    } else {
        let mut idx = k - n;
        let mut i = 0;
        while idx >= n - 1 - i {
            idx -= n - 1 - i;
            i += 1;
        }
        (words[i].clone(), Some(words[i + 1 + idx].clone()))
    };
    // variables: 0 = x (the word), 1 = a, 2 = c, 3 = b, 4 = b2
    let base = vec![
        (0usize, Ev::Packed { spans: vec![(1, 0, 16), (2, 16, 16)], is_struct: false }),
        (0usize, Ev::Packed { spans: vec![(3, 0, 32)], is_struct: false }),
    ];
    let mut deliveries: Vec<(&'static str, EvidenceSet)> = Vec::new();
    let mut both = base.clone();
    both.push((3, e1.clone()));
    if let Some(e2) = &e2 {
        both.push((3, e2.clone()));
    }
    deliveries.push(("both stated about the field", EvidenceSet { n_vars: 5, judgements: both }));
    if let Some(e2) = &e2 {
        let mut split = base.clone();
        split.push((3, e1.clone()));
        split.push((4, e2.clone()));
        split.push((3, Ev::Equal { other: 4 }));
        deliveries.push(("split over two equated variables", EvidenceSet { n_vars: 5, judgements: split }));
        let mut swapped = base.clone();
        swapped.push((4, e1.clone()));
        swapped.push((3, e2.clone()));
        swapped.push((4, Ev::Equal { other: 3 }));
        deliveries.push(("split the other way round", EvidenceSet { n_vars: 5, judgements: swapped }));
    }
    // ... and once more with the halves listed high-to-low and a second,
    // identical-layout statement of them listed low-to-high (span order within
    // a packed encoding is not part of what it says).
    {
        let mut unsorted = vec![
            (0usize, Ev::Packed { spans: vec![(2, 16, 16), (1, 0, 16)], is_struct: false }),
            (0usize, Ev::Packed { spans: vec![(4, 0, 16), (2, 16, 16)], is_struct: false }),
            (0usize, Ev::Packed { spans: vec![(3, 0, 32)], is_struct: false }),
            (3, e1.clone()),
        ];
        if let Some(e2) = &e2 {
            unsorted.push((3, e2.clone()));
        }
        deliveries.push(("halves stated twice, once listed high-to-low", EvidenceSet { n_vars: 5, judgements: unsorted }));
    }
    let show = |o: &UnifyOutcome, v: usize| -> String {
        if let Some(p) = &o.panic {
            return format!("Panic({})", p.signature);
        }
        if o.budget_exhausted {
            return "DidNotTerminate".into();
        }
        match o.data[o.class[v]].as_deref() {
            Some([TE::Packed { types, is_struct }]) => {
                let mut l: Vec<(usize, usize)> = types.iter().map(|s| (s.offset, s.size)).collect();
                l.sort_unstable();
                format!("{}{l:?}", if *is_struct { "struct" } else { "packed" })
            }
            Some([TE::Conflict { .. }]) => "Conflict".into(),
            Some(other) => format!("{:?}", other.iter().map(evidence::te_kind).collect::<Vec<_>>()),
            None => "nothing".into(),
        }
    };
    let mut scheds: Vec<Sched> = (0..4).map(Sched::natural).collect();
    scheds.push(Sched::adversarial(1, 1000, storage_layout_extractor::verif::MENU_REVERSE));
    scheds.push(Sched::adversarial(2, 1000, storage_layout_extractor::verif::MENU_ALL));
    // The reference: the same pieces stated about the field directly (the
    // two halves as a packed encoding of the field itself, plus the words),
    // so that everything about the field meets in one fold.
    let mut direct = vec![(3usize, Ev::Packed { spans: vec![(1, 0, 16), (2, 16, 16)], is_struct: false }), (3, e1.clone())];
    if let Some(e2) = &e2 {
        direct.push((3, e2.clone()));
    }
    let direct = EvidenceSet { n_vars: 5, judgements: direct };
    let mut seen: BTreeSet<String> = BTreeSet::new();
    let mut by_delivery: Vec<Value> = Vec::new();
    {
        let o = run_unify(&direct, &Sched::natural(0), &UnifyOpts::default());
        res.runs += 1;
        res.steps += o.polls;
        let out = format!("field {} halves {}", show(&o, 3), if o.same_class(1, 2) { "one class" } else { "apart" });
        by_delivery.push(json!({"delivery": "stated about the field directly", "schedule": "natural(0)", "outcome": out}));
        seen.insert(out);
    }
    let mut seen_word: BTreeSet<String> = BTreeSet::new();
    for (label, ev) in &deliveries {
        for sched in &scheds {
            let o = run_unify(ev, sched, &UnifyOpts::default());
            res.runs += 1;
            res.steps += o.polls;
            res.fold_orders.push(o.record.fold_digest);
            res.fault("field_refined_by_a_later_round");
            let out = format!("field {} halves {}", show(&o, 3), if o.same_class(1, 2) { "one class" } else { "apart" });
            let word = format!("word {}", show(&o, 0));
            let new_word = seen_word.insert(word.clone());
            if seen.insert(out.clone()) || new_word {
                by_delivery.push(json!({"delivery": label, "schedule": sched.label(), "outcome": format!("{out} | {word}")}));
            }
        }
    }
    if std::env::var_os("SLX_DEBUG").is_some() {
        eprintln!("debug: covered-field {k}: {seen:?} {seen_word:?}");
    }
    if seen.len() <= 1 && seen_word.len() <= 1 {
        return None;
    }
    seen.extend(seen_word);
    let mut kinds = vec![e1.kind()];
    if let Some(e2) = &e2 {
        kinds.push(e2.kind());
    }
    kinds.sort();
    Some((
        format!("covered-field:[{}] gives {{{}}}", kinds.join(", "), seen.iter().cloned().collect::<Vec<_>>().join(" || ")),
        json!({"stated_about_the_field": kinds, "first_occurrences": by_delivery}),
    ))
}

const PUSHED_USAGES: [(WordUse, usize); 4] = [(WordUse::Address, 160), (WordUse::Bool, 8), (WordUse::Selector, 32), (WordUse::Function, 192)];

fn pushed_word_cases() -> u64 {
    (PUSHED_USAGES.len() * 6) as u64
}

/// A word of a fixed-size usage stated about a value that is also a packed
/// encoding of one field of that size: the library's documented way of typing
/// the field (the word is pushed down onto the span's variable). The field
/// variable `t` is equated with another variable `t2` that carries compatible
/// evidence of its own. What `t` and `t2` resolve to, and that they stay one
/// class, must not depend on the schedule, and must be what the same word
/// gives when stated about `t` directly.
fn pushed_word(k: usize, res: &mut CaseResult) -> Option<(String, Value)> {
    let (usage, w) = PUSHED_USAGES[k / 6];
    let other = match k % 6 {
        0 => Ev::Any,
        1 => Ev::word(Some(w), WordUse::Bytes),
        2 => Ev::word(None, WordUse::Bytes),
        3 => Ev::word(Some(w), usage),
        4 => Ev::word(None, usage),
        _ => Ev::word(Some(w), WordUse::Bytes),
    };
    // variables: 0 = x, 1 = t, 2 = t2 (k % 6 == 5: the equality stated from t2)
    let eq = if k % 6 == 5 { (2usize, Ev::Equal { other: 1 }) } else { (1usize, Ev::Equal { other: 2 }) };
    let pushed = EvidenceSet {
        n_vars:     3,
        judgements: vec![
            (0, Ev::word(Some(w), usage)),
            (0, Ev::Packed { spans: vec![(1, 0, w)], is_struct: false }),
            eq.clone(),
            (2, other.clone()),
        ],
    };
    let direct = EvidenceSet {
        n_vars:     3,
        judgements: vec![(1, Ev::word(Some(w), usage)), eq, (2, other.clone())],
    };
    let show = |o: &UnifyOutcome| -> String {
        if let Some(p) = &o.panic {
            return format!("Panic({})", p.signature);
        }
        if o.budget_exhausted {
            return "DidNotTerminate".into();
        }
        let kind = |v: usize| match o.data[o.class[v]].as_deref() {
            Some([one]) => evidence::te_kind(one),
            Some([]) | None => "nothing".to_string(),
            Some(many) => format!("{:?}", many.iter().map(evidence::te_kind).collect::<Vec<_>>()),
        };
        format!("t {} | t2 {} | {}", kind(1), kind(2), if o.same_class(1, 2) { "one class" } else { "apart" })
    };
    let reference = show(&run_unify(&direct, &Sched::natural(0), &UnifyOpts::default()));
    res.runs += 1;
    let mut scheds: Vec<Sched> = (0..6).map(Sched::natural).collect();
    scheds.push(Sched::adversarial(1, 1000, storage_layout_extractor::verif::MENU_REVERSE));
    scheds.push(Sched::adversarial(2, 1000, storage_layout_extractor::verif::MENU_ALL));
    let mut seen: BTreeSet<String> = BTreeSet::new();
    seen.insert(reference.clone());
    let mut example = None;
    for sched in &scheds {
        let o = run_unify(&pushed, sched, &UnifyOpts::default());
        res.runs += 1;
        res.steps += o.polls;
        res.fold_orders.push(o.record.fold_digest);
        res.fault("word_pushed_down_onto_an_equated_field");
        let out = show(&o);
        if out != reference && example.is_none() {
            example = Some(sched.label());
        }
        seen.insert(out);
    }
    if std::env::var_os("SLX_DEBUG").is_some() {
        eprintln!("debug: pushed-word {k}: {seen:?}");
    }
    if seen.len() <= 1 {
        return None;
    }
    Some((
        format!("pushed-word:{} onto a field equated with {}: stated directly gives {{{reference}}}, pushed down gives {{{}}}", Ev::word(Some(w), usage).kind(), other.kind(), seen.iter().filter(|x| **x != reference).cloned().collect::<Vec<_>>().join(" || ")),
        json!({"word": Ev::word(Some(w), usage).kind(), "other": other.kind(), "direct": reference, "all": seen, "first_differing_schedule": example}),
    ))
}

impl Check for C16Check {
    fn info(&self) -> CheckInfo {
        CheckInfo {
            id: "C16",
            level: "fault_enumeration",
            rule: "case = one multiset E of distinct pieces from the 38-piece domain (Any, dynamic bytes, 4 free usages x 6 widths, 4 fixed-width usages, Mapping(a,b), Mapping(b,a), DynArray(a), DynArray(b), FixedArray(a)[3], FixedArray(b)[3], FixedArray(a)[5], a conflict): all 703 pairs and all 8436 triples (thorough: also all 73815 quadruples); each E is delivered to the real unifier in all |E|! fold orders (scripted at the fold scheduling point), in all |E|! recording orders, under 2 further hash keys, in every 2-way split over two equated variables, and in every 2-way split over two variables that become equal only in a later round; all deliveries must give the same normalised outcome. Each 2-way split is also delivered with a unification in between two stages (derived equality first, then the same equality stated and the deriving class made contradictory), which must equal the same evidence unified once, through the free function and through TypeChecker::unify; the equated split is also recorded with infer_many. 25 further cases: one 128-bit field shared by two words, each word also seen with a layout that cuts the field (at 16/32/64/96/112 bits), under 15 schedules; the field's layout must be the one the two cuts give when stated about the field directly. 28 more: a 32-bit field that its word also shows as two 16-bit halves, with one or two of seven compatible words stated about it (both on the field, or split over an equated variable, either way round) under 6 schedules, and once with the halves stated twice, once listed high-to-low; all must agree. 24 more: a fixed-size-usage word stated about a value that is also a packed encoding of one field of that size, the field's variable equated with another that carries compatible evidence, under 8 schedules; the two variables must end as they do when the word is stated about the field directly. evaluations = unifier runs; non-trivial = a multiset whose deliveries folded at least two pieces (all of them); distinct = distinct multisets",
            assumptions: &[
                "merge is only observed through unification::unify, so the check cannot demand more than the system-level statement",
                "outcomes are compared after erasing conflict payloads and replacing type variables by the class of the named variables a, b",
            ],
            components: json!({"real": ["TypeCheckerState (register/infer)", "unification::unify", "merge", "DisjointSet forest"], "stubbed": ["hash seeding and iteration order (cfg hook)", "value identifiers (cfg hook)", "watchdog -> step budget"]}),
        }
    }

    fn cases(&self, tier: Tier) -> u64 {
        let n = domain().len() as u64;
        shared_field_cases()
            + covered_field_cases()
            + pushed_word_cases()
            + match tier {
                Tier::Quick => choose(n, 2) + choose(n, 3),
                Tier::Thorough => choose(n, 2) + choose(n, 3) + choose(n, 4),
            }
    }

    fn exhaustive(&self, tier: Tier) -> Option<String> {
        Some(match tier {
            Tier::Quick => "all pairs and triples of distinct pieces of the finite evidence domain x all fold orders x all 2-way groupings (by union and by rounds)".into(),
            Tier::Thorough => "all pairs, triples and quadruples of distinct pieces of the finite evidence domain x all fold orders x all 2-way groupings (by union and by rounds)".into(),
        })
    }

    fn run_case(&self, idx: u64, seed: u64, tier: Tier) -> CaseResult {
        let mut res = CaseResult::default();
        let Some(e) = multiset(idx, tier) else {
            // The cases after the multisets: the shared-field and the
            // covered-field scenarios.
            let k = (idx - (self.cases(tier) - shared_field_cases() - covered_field_cases() - pushed_word_cases())) as usize;
            if k >= (shared_field_cases() + covered_field_cases()) as usize {
                let k = k - (shared_field_cases() + covered_field_cases()) as usize;
                res.nontrivial.push(idx);
                res.probe("pushed_word_scenarios");
                if let Some((sig, detail)) = pushed_word(k, &mut res) {
                    res.violations.push(Violation {
                        property:  "C16".into(),
                        signature: sig,
                        detail:    json!({"case": idx, "explanation": detail}),
                        replay:    json!({"check": "C16", "kind": "pushed_word", "k": k}),
                    });
                }
                return res;
            }
            if k >= shared_field_cases() as usize {
                let k = k - shared_field_cases() as usize;
                res.nontrivial.push(idx);
                res.probe("covered_field_scenarios");
                if let Some((sig, detail)) = covered_field(k, &mut res) {
                    res.violations.push(Violation {
                        property:  "C16".into(),
                        signature: sig,
                        detail:    json!({"case": idx, "explanation": detail}),
                        replay:    json!({"check": "C16", "kind": "covered_field", "k": k}),
                    });
                }
                return res;
            }
            let (s1, s2) = (FIELD_SPLITS[k / FIELD_SPLITS.len()], FIELD_SPLITS[k % FIELD_SPLITS.len()]);
            res.nontrivial.push(idx);
            res.probe("shared_field_scenarios");
            if let Some((sig, detail)) = shared_field(s1, s2, &mut res) {
                res.violations.push(Violation {
                    property:  "C16".into(),
                    signature: sig,
                    detail:    json!({"case": idx, "explanation": detail}),
                    replay:    json!({"check": "C16", "kind": "shared_field", "cuts": [s1, s2]}),
                });
            }
            return res;
        };
        res.nontrivial.push(idx);
        res.probe(&format!("multisets_of_{}", e.len()));
        if let Some((sig, detail)) = evaluate(&e, Some(&mut res)) {
            // Minimise: drop pieces while the deliveries still disagree, so
            // that a larger multiset is reported as the smallest failing
            // multiset it contains.
            let mut small = e.clone();
            let mut small_sig = sig;
            let mut small_detail = detail;
            let mut progress = true;
            while progress && small.len() > 2 {
                progress = false;
                for i in 0..small.len() {
                    let mut cand = small.clone();
                    cand.remove(i);
                    if let Some((s2, d2)) = evaluate(&cand, Some(&mut res)) {
                        small = cand;
                        small_sig = s2;
                        small_detail = d2;
                        progress = true;
                        break;
                    }
                }
            }
            if small.len() < e.len() {
                res.probe("violations_minimised_to_a_smaller_multiset");
            }
            res.violations.push(Violation {
                property:  "C16".into(),
                signature: small_sig,
                detail:    json!({"case": idx, "seed": seed, "original": e.iter().map(Ev::kind).collect::<Vec<_>>(), "explanation": small_detail}),
                replay:    json!({"check": "C16", "kind": "evidence", "evidence": small}),
            });
        }
        if idx % 2000 == 7 {
            res.sample = Some(json!({"case": idx, "evidence": e.iter().map(Ev::kind).collect::<Vec<_>>(), "deliveries": deliveries(&e).iter().map(|d| d.label.clone()).collect::<Vec<_>>()}));
        }
        res
    }

    fn replay(&self, payload: &Value) -> Result<Option<Violation>, String> {
        if payload["kind"].as_str() == Some("pushed_word") {
            let k = payload["k"].as_u64().ok_or("no k")? as usize;
            let mut res = CaseResult::default();
            return Ok(pushed_word(k, &mut res).map(|(sig, detail)| Violation {
                property: "C16".into(),
                signature: sig,
                detail,
                replay: payload.clone(),
            }));
        }
        if payload["kind"].as_str() == Some("covered_field") {
            let k = payload["k"].as_u64().ok_or("no k")? as usize;
            let mut res = CaseResult::default();
            return Ok(covered_field(k, &mut res).map(|(sig, detail)| Violation {
                property: "C16".into(),
                signature: sig,
                detail,
                replay: payload.clone(),
            }));
        }
        if payload["kind"].as_str() == Some("shared_field") {
            let s1 = payload["cuts"][0].as_u64().ok_or("no cuts")? as usize;
            let s2 = payload["cuts"][1].as_u64().ok_or("no cuts")? as usize;
            let mut res = CaseResult::default();
            return Ok(shared_field(s1, s2, &mut res).map(|(sig, detail)| Violation {
                property: "C16".into(),
                signature: sig,
                detail,
                replay: payload.clone(),
            }));
        }
        let e: Vec<Ev> = serde_json::from_value(payload["evidence"].clone()).map_err(|e| e.to_string())?;
        Ok(evaluate(&e, None).map(|(sig, detail)| Violation {
            property:  "C16".into(),
            signature: sig,
            detail,
            replay:    payload.clone(),
        }))
    }
}
