//! C02 – determinism: same bytecode + configuration => same result under
//! every schedule (hash keys and iteration decisions).

use std::collections::{BTreeMap, BTreeSet};

use serde_json::{json, Value};
use storage_layout_extractor::verif::{MENU_ALL, MENU_KIND_ASC, MENU_KIND_DESC, MENU_REVERSE, MENU_SHUFFLE};

use crate::{
    framework::{CaseResult, Check, CheckInfo, Tier, Violation},
    rng::{derive, Rng},
    shrink,
    sim::{self, Api, Class, Knobs, Outcome, RunOpts, Scenario, Sched, WdPlan},
    workload::{self, Corpus},
};

/// Simulated steps (polls at poll_every = 1) allowed per run.
pub const STEP_BUDGET: u64 = 300_000;
/// ... and for the full-size real contracts of the thorough tier.
pub const BIG_STEP_BUDGET: u64 = 200_000_000;

thread_local! {
    /// Positions in the full sweep of the schedules handed to
    /// `first_divergence` (set only when replaying a pair).
    static POSITIONS: std::cell::RefCell<Option<Vec<usize>>> = std::cell::RefCell::new(None);
    static BUDGET: std::cell::Cell<u64> = std::cell::Cell::new(STEP_BUDGET);
    static BIG: Corpus = Corpus::load("/verif/corpus_big");
}

pub struct C02Check;
pub static C02: C02Check = C02Check;

pub fn schedules(seed: u64, tier: Tier) -> Vec<Sched> {
    let naturals = match tier {
        Tier::Quick => 8,
        Tier::Thorough => 28,
    };
    let randoms = match tier {
        Tier::Quick => 2,
        Tier::Thorough => 16,
    };
    let mut v = vec![Sched::natural(0)];
    for k in 1..=naturals {
        v.push(Sched::natural(derive(seed, k)));
    }
    // Reverse every iteration; force the fold to both kind-sorted extremes.
    v.push(Sched::adversarial(1, 1000, MENU_REVERSE));
    v.push(Sched::adversarial(2, 1000, MENU_KIND_ASC));
    v.push(Sched::adversarial(3, 1000, MENU_KIND_DESC));
    v.push(Sched::adversarial(4, 1000, MENU_SHUFFLE));
    for k in 0..randoms {
        let s = derive(seed, 1000 + k);
        // Random site subsets, full menu, with non-default hash keys too.
        let mut sc = Sched::adversarial(s, 300 + (s % 700) as u32, MENU_ALL);
        if k % 2 == 1 {
            sc.hash_keys = derive(seed, 2000 + k);
        }
        v.push(sc);
    }
    v
}

fn same_result(a: &Outcome, b: &Outcome) -> bool {
    if a.class != b.class {
        return false;
    }
    match a.class {
        // The library's own equality: entries in order, conflict payloads
        // ignored.
        Class::Ok => a.layout == b.layout,
        // The property speaks of the success/failure class only.
        Class::Err | Class::Panic => true,
    }
}

fn class_name(o: &Outcome) -> &'static str {
    match o.class {
        Class::Ok => "ok",
        Class::Err => "err",
        Class::Panic => "panic",
    }
}

fn layout_kinds(o: &Outcome) -> String {
    match (&o.class, &o.layout) {
        (Class::Ok, Some(l)) => {
            let v: Vec<String> = l
                .slots()
                .iter()
                .map(|s| {
                    let t = serde_json::to_value(&s.typ).unwrap_or(Value::Null);
                    let name = match &t {
                        Value::String(s) => s.clone(),
                        Value::Object(m) => m.keys().next().cloned().unwrap_or_default(),
                        _ => "?".into(),
                    };
                    format!("{:x}+{}:{}", s.index.0, s.offset, name)
                })
                .collect();
            v.join(",")
        }
        _ => class_name(o).to_string(),
    }
}

/// Explains a divergence from the two fold logs.
pub fn signature(code: &[u8], knobs: &Knobs, a: &Sched, b: &Sched) -> (String, Value) {
    let opts = RunOpts {
        record_trace: false,
        record_folds: true,
    };
    let mk = |s: &Sched| {
        let mut sc = Scenario::simple(code.to_vec());
        sc.knobs = knobs.clone();
        sc.sched = s.clone();
        sc.wd = WdPlan::budget(1, BUDGET.with(std::cell::Cell::get));
        sim::run(&sc, &opts)
    };
    let oa = mk(a);
    let ob = mk(b);
    if oa.class != ob.class {
        return (
            format!("class:{{{}|{}}}", class_name(&oa).min(class_name(&ob)), class_name(&oa).max(class_name(&ob))),
            json!({"a": oa.summary(), "b": ob.summary()}),
        );
    }
    // Per evidence multiset: the set of fold results in each run.
    let index = |o: &Outcome| {
        let mut m: BTreeMap<Vec<String>, BTreeSet<String>> = BTreeMap::new();
        for f in &o.record.fold_log {
            if f.kinds.len() < 2 {
                continue;
            }
            let mut k = f.kinds.clone();
            k.sort();
            m.entry(k).or_default().insert(f.result.clone());
        }
        m
    };
    let ma = index(&oa);
    let mb = index(&ob);
    for (k, ra) in &ma {
        if let Some(rb) = mb.get(k) {
            if ra != rb {
                let mut all: BTreeSet<String> = ra.clone();
                all.extend(rb.iter().cloned());
                let outs: Vec<String> = all.into_iter().collect();
                return (
                    format!("fold:[{}] -> {{{}}}", k.join(", "), outs.join(" | ")),
                    json!({"evidence": k, "results_a": ra, "results_b": rb, "layout_a": layout_kinds(&oa), "layout_b": layout_kinds(&ob)}),
                );
            }
        }
    }
    let ka: BTreeSet<&Vec<String>> = ma.keys().collect();
    let kb: BTreeSet<&Vec<String>> = mb.keys().collect();
    if ka != kb {
        let only_a: Vec<String> = ka.difference(&kb).map(|k| format!("[{}]", k.join(", "))).collect();
        let only_b: Vec<String> = kb.difference(&ka).map(|k| format!("[{}]", k.join(", "))).collect();
        // The evidence that reached the unifier differs: the divergence arose
        // earlier (value order / registration / rule order) or in an earlier
        // round's emitted judgements.
        return (
            format!("pre:evidence-sets-differ:{}|{}", only_a.first().cloned().unwrap_or_default(), only_b.first().cloned().unwrap_or_default()),
            json!({"only_a": only_a, "only_b": only_b, "layout_a": layout_kinds(&oa), "layout_b": layout_kinds(&ob)}),
        );
    }
    // Same evidence, same fold results: the divergence is in what is built
    // from them. Name the first entry that differs.
    let first_diff = match (&oa.layout, &ob.layout) {
        (Some(la), Some(lb)) => {
            let (sa, sb) = (la.slots(), lb.slots());
            let n = sa.len().max(sb.len());
            (0..n).find(|i| sa.get(*i) != sb.get(*i)).map(|i| {
                let show = |s: Option<&storage_layout_extractor::layout::StorageSlot>| match s {
                    Some(s) => format!("{:x}+{}:{}", s.index.0, s.offset, serde_json::to_string(&s.typ).unwrap_or_default().chars().take(90).collect::<String>()),
                    None => "absent".to_string(),
                };
                format!("entry {i}: {} | {}", show(sa.get(i)), show(sb.get(i)))
            })
        }
        _ => None,
    }
    .unwrap_or_else(|| format!("{}|{}", layout_kinds(&oa), layout_kinds(&ob)));
    (
        format!("post:same-folds-different-layout:{first_diff}"),
        json!({"layout_a": layout_kinds(&oa), "layout_b": layout_kinds(&ob), "first_difference": first_diff}),
    )
}

/// Runs `code` under all schedules; returns the index of the first schedule
/// whose result differs from the reference (index 0).
fn first_divergence(code: &[u8], knobs: &Knobs, scheds: &[Sched], res: Option<&mut CaseResult>) -> Option<usize> {
    let opts = RunOpts::default();
    let mut reference: Option<Outcome> = None;
    let mut found = None;
    let mut res = res;
    // The sweep ends with the reference schedule once more: analyses share
    // objects (the slot-hash table, whatever else a change may introduce), so
    // the same run after fourteen others must still be the same run.
    let again = scheds[0].clone();
    let sweep: Vec<&Sched> = scheds.iter().chain(std::iter::once(&again)).collect();
    // Runs of this sweep that ran out of the step budget, if none has
    // finished yet: such runs are left out of the comparison, and when the
    // first three all ended that way the remaining dozens would too - there is
    // nothing to compare, only minutes of wall time to spend.
    let mut exhausted_so_far = 0usize;
    let mut finished_any = false;
    for (i, s) in sweep.into_iter().enumerate() {
        if !finished_any && exhausted_so_far >= 3 {
            break;
        }
        let i = if i == scheds.len() { 0 } else { i };
        // (a replay of two schedules out of the sweep keeps their positions)
        let i = POSITIONS.with(|p| p.borrow().as_ref().and_then(|v| v.get(i).copied()).unwrap_or(i));
        // Every fifth run builds its type-checker configuration the way
        // `tc::Config::default()` does, with a slot-hash table of its own
        // made by the library; the others share one table per worker, as
        // `StorageSlotHashes::new_with_hashes` is documented to allow.
        sim::set_own_table(i % 5 == 4);
        let mut sc = Scenario::simple(code.to_vec());
        sc.knobs = knobs.clone();
        sc.sched = s.clone();
        // The same bytecode and configuration must give the same answer
        // through every way of calling the pipeline.
        sc.api = match i % 4 {
            1 => Api::Staged(4),
            2 => Api::Phases,
            _ => Api::OneCall,
        };
        // A step budget instead of the lazy watchdog: a run that does not
        // halt is C03's business and is left out of the comparison here.
        sc.wd = WdPlan::budget(1, BUDGET.with(std::cell::Cell::get));
        let out = sim::run(&sc, &opts);
        sim::set_own_table(false);
        if out.budget_exhausted {
            exhausted_so_far += 1;
            if let Some(r) = res.as_deref_mut() {
                r.runs += 1;
                r.steps += out.polls;
                r.probe("step_budget_exhausted_run_skipped");
                if i == 0 {
                    r.notes.push(format!("step budget exhausted: program {}", hex::encode(code)));
                }
            }
            continue;
        }
        finished_any = true;
        if let Some(r) = res.as_deref_mut() {
            r.runs += 1;
            r.steps += out.record.site_ticks.iter().sum::<u64>();
            r.traces.push(out.record.trace_digest);
            if out.record.folds_multi > 0 {
                r.fold_orders.push(out.record.fold_digest);
                // distinct (scenario, fold order) pairs with a real fold
                let mut h = std::collections::hash_map::DefaultHasher::new();
                std::hash::Hash::hash(&(code, out.record.fold_digest), &mut h);
                r.nontrivial.push(std::hash::Hasher::finish(&h));
            }
            if out.record.permuted_events > 0 {
                r.fault("schedule_permutation_applied");
            }
            match out.class {
                Class::Ok => r.probe("result_ok"),
                Class::Err => r.probe("result_err"),
                Class::Panic => r.probe("result_panic"),
            }
            if out.record.fold_max_len >= 3 {
                r.probe("fold_of_3_or_more");
            }
            if out.layout.as_ref().map_or(false, |l| l.slot_count() > 0) {
                r.probe("nonempty_layout");
            }
        }
        match &reference {
            None => reference = Some(out),
            Some(r0) => {
                if !same_result(r0, &out) && found.is_none() {
                    found = Some(i);
                    if res.is_none() {
                        return found;
                    }
                }
            }
        }
    }
    found
}

thread_local! {
    static CORPUS: Corpus = Corpus::load("/verif/corpus");
}

pub fn gen_program(r: &mut Rng, tier: Tier) -> (Vec<u8>, &'static str) {
    let roll = r.below(100);
    if roll < 1 {
        (workload::gen_wide(r), "wide_fan_out")
    } else if (56..60).contains(&roll) {
        (workload::gen_mutual(r), "mutually_recursive_slots")
    } else if roll < 60 {
        (workload::gen_storage(r), "storage")
    } else if roll < 80 {
        (workload::gen_stack(r, false), "stack")
    } else if roll < 90 {
        (workload::gen_cfg(r), "cfg")
    } else {
        let max = match tier {
            Tier::Quick => 1200,
            Tier::Thorough => 6000,
        };
        (CORPUS.with(|c| workload::gen_corpus(r, c, max)), "corpus")
    }
}

fn cancelled_scenario(code: &[u8], knobs: &Knobs, sched: &Sched, k: u64, one_shot: bool) -> Scenario {
    let mut wd = WdPlan::stop_at(1, k);
    wd.flap = one_shot;
    wd.budget = Some(STEP_BUDGET);
    Scenario {
        code: code.to_vec(),
        knobs: knobs.clone(),
        sched: sched.clone(),
        wd,
        api: Api::OneCall,
        poisoned_table: false,
    }
}

/// Runs the program with a stop request at poll `k` (interval 1; sticky or
/// visible to that one poll only) under three schedules. Compared only if
/// every run actually saw the request.
fn cancelled_outcomes(code: &[u8], knobs: &Knobs, scheds: &[Sched], k: u64, one_shot: bool, res: Option<&mut CaseResult>) -> Option<Vec<Outcome>> {
    let mut outs = Vec::new();
    let mut res = res;
    for sched in scheds {
        let out = sim::run(&cancelled_scenario(code, knobs, sched, k, one_shot), &RunOpts::default());
        if let Some(r) = res.as_deref_mut() {
            r.runs += 1;
            r.steps += out.polls;
        }
        if out.first_true.is_none() || out.budget_exhausted {
            return None;
        }
        outs.push(out);
    }
    Some(outs)
}

fn cancelled_signature(one_shot: bool, a: &Outcome, b: &Outcome) -> String {
    let site = a.first_true_site.map_or("none", |s| storage_layout_extractor::verif::SITE_NAMES[s]);
    let show = |o: &Outcome| match o.class {
        Class::Ok => format!("layout with {} slots", o.layout.as_ref().map_or(0, |l| l.slots().len())),
        Class::Err => format!("error {:?}", o.error_kinds()),
        Class::Panic => "panic".to_string(),
    };
    format!("cancelled:{} stop request seen in {site}: {} | {}", if one_shot { "one-shot" } else { "sticky" }, show(a), show(b))
}

fn cancelled_divergence(code: &[u8], knobs: &Knobs, scheds: &[Sched], r: &mut Rng, res: &mut CaseResult) -> Option<Violation> {
    let three: Vec<Sched> = vec![scheds[0].clone(), scheds[1 % scheds.len()].clone(), scheds[scheds.len() - 1].clone()];
    let mut probe_sc = cancelled_scenario(code, knobs, &three[0], u64::MAX, false);
    probe_sc.wd.stop_at = None;
    probe_sc.wd.log_sites = true;
    let probe = sim::run(&probe_sc, &RunOpts::default());
    res.runs += 1;
    if probe.polls == 0 || probe.budget_exhausted || probe.class == Class::Panic {
        return None;
    }
    // Later polls (the type checker's) a little more often than the VM's.
    // Half of the time a poll made by the unifier (where what has and has
    // not been folded yet depends on the order), otherwise any poll, the late
    // ones (layout building) a little more often.
    let unify_polls: Vec<u64> = probe
        .poll_sites
        .iter()
        .enumerate()
        .filter(|(_, s)| **s as usize == storage_layout_extractor::verif::Site::Unify as usize)
        .map(|(i, _)| i as u64)
        .collect();
    let k = if !unify_polls.is_empty() && r.chance(1, 2) {
        *r.pick(&unify_polls)
    } else if r.chance(1, 2) {
        r.below(probe.polls)
    } else {
        probe.polls - 1 - r.below(probe.polls.min(60))
    };
    let one_shot = r.chance(1, 2);
    let outs = cancelled_outcomes(code, knobs, &three, k, one_shot, Some(res))?;
    res.fault(if one_shot { "one_shot_stop_request_under_three_orders" } else { "sticky_stop_request_under_three_orders" });
    let first = outs[0].result_digest();
    let ix = outs.iter().position(|o| o.result_digest() != first)?;
    Some(Violation {
        property:  "C02".into(),
        signature: cancelled_signature(one_shot, &outs[0], &outs[ix]),
        detail:    json!({"program": hex::encode(code), "knobs": knobs, "stop_at_poll": k, "one_shot": one_shot, "schedule_a": three[0].label(), "schedule_b": three[ix].label(), "result_a": outs[0].summary(), "result_b": outs[ix].summary()}),
        replay:    json!({"check": "C02", "kind": "cancelled", "code": hex::encode(code), "knobs": knobs, "sched_a": three[0], "sched_b": three[ix], "k": k, "one_shot": one_shot}),
    })
}

impl Check for C02Check {
    fn info(&self) -> CheckInfo {
        CheckInfo {
            id: "C02",
            level: "exploration",
            rule: "case = one generated program (storage idioms 56%, slots typed in terms of each other in a ring 4%, stack-aware 20%, control-flow 10%, mutated corpus 10%) + knobs (default 70%, swarm 30%), analysed under a reference schedule and S further schedules (natural hash keys, reverse-all, fold sorted by kind asc/desc, shuffle-all, seeded random site subsets), rotating through the three ways of calling the pipeline (analyze(), the staged extractor calls, VM + type-checker phases one by one), every fifth run with a slot-hash table of its own built by the library instead of the table shared by the worker's analyses; one case in three is also run under three schedules with a stop request (sticky, or visible to one poll only) at the same poll index at interval 1, half of the time a poll made by the unifier, and where all three runs saw the request their results must be equal; evaluations = simulated runs; a run is non-trivial when the unifier folded at least one class holding >= 2 pieces of evidence; distinct = distinct (program, fold-order digest) pairs, counted with a hash set",
            assumptions: &[
                "all order-sensitive iteration in the library goes through std HashMap/HashSet, which the cfg hook replaces (BiMap in the slot-hash table is only used for keyed look-ups)",
                "equality of results is the library's own StorageLayout PartialEq (conflict payloads ignored) plus the success/failure class",
                "no cancellation is injected here (C13 owns that)",
            ],
            components: super::components(),
        }
    }

    fn cases(&self, tier: Tier) -> u64 {
        match tier {
            Tier::Quick => 10_000,
            Tier::Thorough => 80_000,
        }
    }

    fn run_case(&self, idx: u64, seed: u64, tier: Tier) -> CaseResult {
        let mut res = CaseResult::default();
        let mut r = Rng::new(seed);
        // Thorough tier: the first cases are the full-size real contracts of
        // the repository's own test-suite, unmodified, default limits
        // (permissive errors on, as the suite runs the one that needs it),
        // under a reference schedule and four others.
        let n_big = BIG.with(|c| c.items.len()) as u64;
        if tier == Tier::Thorough && idx < n_big {
            let (name, code) = BIG.with(|c| c.items[idx as usize].clone());
            let mut knobs = Knobs::default();
            knobs.permissive = true;
            let scheds = vec![
                Sched::natural(0),
                Sched::natural(derive(seed, 1)),
                Sched::adversarial(1, 1000, MENU_REVERSE),
                Sched::adversarial(3, 1000, MENU_KIND_DESC),
                Sched::adversarial(derive(seed, 2), 500, MENU_ALL),
            ];
            BUDGET.with(|b| b.set(BIG_STEP_BUDGET));
            let div = first_divergence(&code, &knobs, &scheds, Some(&mut res));
            BUDGET.with(|b| b.set(STEP_BUDGET));
            res.probe("workload_full_size_real_contract");
            if let Some(ix) = div {
                BUDGET.with(|b| b.set(BIG_STEP_BUDGET));
                let (sig, detail) = signature(&code, &knobs, &scheds[0], &scheds[ix]);
                BUDGET.with(|b| b.set(STEP_BUDGET));
                res.violations.push(Violation {
                    property:  "C02".into(),
                    signature: sig,
                    detail:    json!({"case": idx, "seed": seed, "contract": name, "program_len": code.len(), "schedule_a": scheds[0].label(), "schedule_b": scheds[ix].label(), "explanation": detail}),
                    replay:    json!({"check": "C02", "kind": "pair", "code": hex::encode(&code), "knobs": knobs, "sched_a": scheds[0], "sched_b": scheds[ix], "index_b": ix, "big": true}),
                });
            }
            return res;
        }
        let (code, family) = gen_program(&mut r, tier);
        let knobs = workload::mixed_knobs(&mut r, 70);
        let scheds = schedules(seed, tier);
        res.probe(&format!("workload_{family}"));
        if let Some(ix) = first_divergence(&code, &knobs, &scheds, Some(&mut res)) {
            // Minimise the program while some schedule still diverges.
            let small = shrink::minimise(&code, 400, |c| first_divergence(c, &knobs, &scheds, None).is_some());
            let (small, ix) = match first_divergence(&small, &knobs, &scheds, None) {
                Some(j) => (small, j),
                None => (code.clone(), ix),
            };
            // Knobs back to default if that still fails.
            let knobs = if first_divergence(&small, &Knobs::default(), &[scheds[0].clone(), scheds[ix].clone()], None).is_some() {
                Knobs::default()
            } else {
                knobs.clone()
            };
            let (sig, detail) = signature(&small, &knobs, &scheds[0], &scheds[ix]);
            res.violations.push(Violation {
                property:  "C02".into(),
                signature: sig,
                detail:    json!({"case": idx, "seed": seed, "program": hex::encode(&small), "original_len": code.len(), "minimised_len": small.len(), "schedule_a": scheds[0].label(), "schedule_b": scheds[ix].label(), "explanation": detail}),
                replay:    json!({"check": "C02", "kind": "pair", "code": hex::encode(&small), "knobs": knobs, "sched_a": scheds[0], "sched_b": scheds[ix], "index_b": ix}),
            });
        }
        // One case in three: the same analysis *cancelled at the same poll*
        // under three iteration orders. The watchdog's answers are part of
        // the configuration, so the result (a stop error, or whatever the
        // library makes of a stop request that is visible to one poll only)
        // must not depend on the order either.
        if res.violations.is_empty() && r.chance(1, 3) {
            if let Some(v) = cancelled_divergence(&code, &knobs, &scheds, &mut r, &mut res) {
                res.violations.push(v);
            }
        }
        if idx < 5 {
            res.sample = Some(json!({"case": idx, "seed": seed, "workload": family, "program": hex::encode(&code), "knobs": knobs, "schedules": scheds.iter().map(Sched::label).collect::<Vec<_>>()}));
        }
        res
    }

    fn replay(&self, payload: &Value) -> Result<Option<Violation>, String> {
        let code = hex::decode(payload["code"].as_str().ok_or("no code")?).map_err(|e| e.to_string())?;
        let knobs: Knobs = serde_json::from_value(payload["knobs"].clone()).map_err(|e| e.to_string())?;
        let a: Sched = serde_json::from_value(payload["sched_a"].clone()).map_err(|e| e.to_string())?;
        let b: Sched = serde_json::from_value(payload["sched_b"].clone()).map_err(|e| e.to_string())?;
        let scheds = [a.clone(), b.clone()];
        if payload["kind"].as_str() == Some("cancelled") {
            let k = payload["k"].as_u64().ok_or("no k")?;
            let one_shot = payload["one_shot"].as_bool().unwrap_or(false);
            let Some(outs) = cancelled_outcomes(&code, &knobs, &scheds, k, one_shot, None) else {
                return Ok(None);
            };
            if outs[0].result_digest() == outs[1].result_digest() {
                return Ok(None);
            }
            return Ok(Some(Violation {
                property:  "C02".into(),
                signature: cancelled_signature(one_shot, &outs[0], &outs[1]),
                detail:    json!({"result_a": outs[0].summary(), "result_b": outs[1].summary()}),
                replay:    payload.clone(),
            }));
        }
        if payload["big"].as_bool() == Some(true) {
            BUDGET.with(|x| x.set(BIG_STEP_BUDGET));
        }
        if let Some(ix) = payload["index_b"].as_u64() {
            POSITIONS.with(|p| *p.borrow_mut() = Some(vec![0, ix as usize, 0]));
        }
        let diverged = first_divergence(&code, &knobs, &scheds, None).is_some();
        POSITIONS.with(|p| *p.borrow_mut() = None);
        if !diverged {
            return Ok(None);
        }
        let (sig, detail) = signature(&code, &knobs, &a, &b);
        Ok(Some(Violation {
            property:  "C02".into(),
            signature: sig,
            detail:    json!({"program": hex::encode(&code), "schedule_a": a.label(), "schedule_b": b.label(), "explanation": detail}),
            replay:    payload.clone(),
        }))
    }
}
