//! D00 – not a property: the determinism self-test of the machinery. Every
//! case executes one C01-style pipeline scenario (all seams and fault kinds)
//! and one unifier-level scenario, and reports fingerprints; the parent runs
//! the batch twice with different worker counts and compares. The case also
//! checks in-process that replaying the recorded trace as a script gives the
//! same execution.

use serde_json::Value;

use crate::{
    checks::{c01, c14},
    evidence::{run_unify, UnifyOpts},
    framework::{CaseResult, Check, CheckInfo, Tier, Violation},
    rng::Rng,
    sim::{self, trace_to_script, PolicySpec, RunOpts, Sched},
};

pub struct D00Check;
pub static D00: D00Check = D00Check;

impl Check for D00Check {
    fn info(&self) -> CheckInfo {
        CheckInfo {
            id: "D00",
            level: "other",
            rule: "determinism self-test: fingerprints of identical seeds must agree across processes and worker counts; a recorded trace replayed as a script must reproduce the run",
            assumptions: &[],
            components: super::components(),
        }
    }

    fn cases(&self, tier: Tier) -> u64 {
        match tier {
            Tier::Quick => 20_000,
            Tier::Thorough => 200_000,
        }
    }

    fn run_case(&self, idx: u64, seed: u64, tier: Tier) -> CaseResult {
        let mut res = CaseResult::default();
        let mut r = Rng::new(seed);
        let (mut sc, _) = c01::gen_scenario(&mut r, tier);
        if r.chance(1, 3) {
            sc.wd.stop_at = Some(r.below(200));
        }
        let out = sim::run(
            &sc,
            &RunOpts {
                record_trace: true,
                record_folds: false,
            },
        );
        res.runs += 1;
        res.fingerprints.push(out.fingerprint());
        // Trace -> script -> same execution (only for runs small enough to
        // carry their whole trace around).
        if idx % 8 == 0 && out.record.trace.len() < 20_000 {
            let mut sc2 = sc.clone();
            sc2.sched = Sched {
                hash_keys: sc.sched.hash_keys,
                policy:    PolicySpec::Scripted(trace_to_script(&out.record.trace)),
            };
            let out2 = sim::run(
                &sc2,
                &RunOpts {
                    record_trace: false,
                    record_folds: false,
                },
            );
            res.runs += 1;
            res.probe("trace_replayed_as_script");
            if out2.record.script_mismatch.is_some() || out2.fingerprint() != out.fingerprint() {
                res.harness_errors.push(format!(
                    "case {idx}: scripted replay diverged from the recorded run ({:?}); scenario {}",
                    out2.record.script_mismatch,
                    serde_json::to_string(&sc).unwrap_or_default()
                ));
            }
        }
        // Unifier-level scenario.
        let ev = c14::gen_evidence(&mut r);
        for s in c14::schedules(seed).into_iter().take(3) {
            let o = run_unify(&ev, &s, &UnifyOpts::default());
            res.runs += 1;
            let mut h = std::collections::hash_map::DefaultHasher::new();
            std::hash::Hash::hash(&(o.record.trace_digest, o.record.fold_digest, o.polls, &o.class, o.n_after), &mut h);
            res.fingerprints.push(std::hash::Hasher::finish(&h));
        }
        res
    }

    fn replay(&self, _payload: &Value) -> Result<Option<Violation>, String> {
        Ok(None)
    }
}
