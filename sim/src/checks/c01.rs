//! C01 – the analysis is total: a layout or a structured error, never a
//! panic / abort / stack overflow – under every schedule, configuration,
//! cancellation point and API prefix.

use serde_json::{json, Value};
use storage_layout_extractor::verif::{MENU_ALL, SITE_NAMES};

use crate::{
    framework::{CaseResult, Check, CheckInfo, Tier, Violation},
    rng::{derive, Rng},
    shrink,
    sim::{self, Api, Class, Knobs, Outcome, RunOpts, Scenario, Sched, WdKind, WdPlan},
    workload::{self, Corpus},
};

pub struct C01Check;
pub static C01: C01Check = C01Check;

/// Loop iterations allowed per run before the step budget ends it (the run
/// is then inconclusive for C01; C03 owns halting).
const ITERATION_BUDGET: u64 = 400_000;

thread_local! {
    static CORPUS: Corpus = Corpus::load("/verif/corpus");
}

fn gen_program(r: &mut Rng, tier: Tier) -> (Vec<u8>, &'static str) {
    let roll = r.below(100);
    if roll < 9 {
        (workload::gen_bytes(r), "bytes")
    } else if roll < 11 {
        (workload::gen_wide(r), "wide_fan_out")
    } else if roll < 18 {
        (workload::gen_growth(r), "growth_chain")
    } else if roll < 28 {
        (workload::gen_const_use(r), "computed_constants")
    } else if roll < 50 {
        (workload::gen_stack(r, true), "stack_hostile")
    } else if roll < 60 {
        (workload::gen_stack(r, false), "stack")
    } else if roll < 75 {
        (workload::gen_storage(r), "storage")
    } else if roll < 85 {
        (workload::gen_cfg(r), "cfg")
    } else {
        let max = match tier {
            Tier::Quick => 2_000,
            Tier::Thorough => 6_200,
        };
        (CORPUS.with(|c| workload::gen_corpus(r, c, max)), "corpus")
    }
}

pub fn gen_scenario(r: &mut Rng, tier: Tier) -> (Scenario, &'static str) {
    let (mut code, family) = gen_program(r, tier);
    if r.chance(1, 20) {
        workload::end_on_last_jumpdest(&mut code);
    }
    // (The limit on a single memory operation is explored up to 64 KiB. "No
    // limit" is a valid configuration too, but under it the memory the library
    // uses is proportional to attacker-chosen sizes by design - the knob *is*
    // the bound, and `Memory::load_slice` is not polled - so a worker killed
    // by the address-space limit could not be told from a defect.)
    let knobs = workload::mixed_knobs(r, 50);
    let sched = if r.chance(1, 2) {
        Sched::natural(r.next())
    } else {
        let mut s = Sched::adversarial(r.next(), 200 + r.below(800) as u32, MENU_ALL);
        if r.chance(1, 2) {
            s.hash_keys = r.next();
        }
        s
    };
    let p = *r.pick(&[1usize, 1, 2, 3, 7, 16, 100, 1000]);
    let api = match r.below(10) {
        0..=4 => Api::OneCall,
        5 | 6 => Api::Staged(r.below(5) as u8),
        7 | 8 => Api::VmThenTc {
            continue_on_error: r.chance(1, 2),
        },
        9 if r.chance(1, 2) => Api::ReusedChecker,
        _ => Api::Phases,
    };
    let mut wd = WdPlan::budget(p, ITERATION_BUDGET / p as u64 + 1);
    wd.kind = WdKind::Sim;
    let sc = Scenario {
        code,
        knobs,
        sched,
        wd,
        api,
        poisoned_table: r.chance(1, 20),
    };
    (sc, family)
}

fn account(res: &mut CaseResult, sc: &Scenario, out: &Outcome) {
    res.runs += 1;
    res.steps += out.record.site_ticks.iter().sum::<u64>();
    match out.class {
        Class::Ok => res.probe("result_ok"),
        Class::Err => res.probe("result_err"),
        Class::Panic => res.probe("result_panic"),
    }
    if out.budget_exhausted {
        res.probe("step_budget_exhausted");
    }
    if out.record.permuted_events > 0 {
        res.fault("schedule_permutation_applied");
    }
    if let (Some(_), false) = (out.first_true, out.budget_exhausted) {
        let site = out.first_true_site.map_or("none", |s| SITE_NAMES[s]);
        res.fault(&format!("stop_seen_in_{site}"));
        if sc.wd.flap {
            res.fault("flapping_watchdog");
        }
    }
    if out.notes.iter().any(|n| n == "continued_on_partial_state") {
        res.fault("continued_on_partial_state");
    }
    if sc.poisoned_table {
        res.fault("poisoned_slot_hash_table");
    }
    if let Some(vm) = &out.vm {
        if vm.states > 1 {
            res.probe("vm_forked");
        }
    }
    for e in &out.errors {
        match e.kind.as_str() {
            "GasLimitExceeded" => res.probe("gas_limit_hit"),
            "StoppedByWatchdog" => {}
            _ => {}
        }
    }
    if out.record.site_ticks[storage_layout_extractor::verif::Site::Unify as usize] > 0 {
        res.probe("reached_unification");
    }
    if out.record.folds_multi > 0 {
        res.probe("folded_class_with_2_or_more");
        let mut h = std::collections::hash_map::DefaultHasher::new();
        std::hash::Hash::hash(&(&sc.code, out.record.fold_digest, out.first_true), &mut h);
        res.nontrivial.push(std::hash::Hasher::finish(&h));
    } else if sc.code.iter().any(|b| *b == 0x54 || *b == 0x55) && out.record.site_ticks[0] > 3 {
        let mut h = std::collections::hash_map::DefaultHasher::new();
        std::hash::Hash::hash(&(&sc.code, out.record.trace_digest, out.first_true), &mut h);
        res.nontrivial.push(std::hash::Hasher::finish(&h));
    }
    res.traces.push(out.record.trace_digest);
}

fn panic_sig(sc: &Scenario) -> Option<String> {
    let out = sim::run(sc, &RunOpts::default());
    out.panic.map(|p| p.signature)
}

/// Minimises a panicking scenario: program first, then the environment.
fn minimise(sc: &Scenario, sig: &str) -> Scenario {
    let mut best = sc.clone();
    let code = shrink::minimise(&best.code, 600, |c| {
        let mut t = best.clone();
        t.code = c.to_vec();
        panic_sig(&t).as_deref() == Some(sig)
    });
    best.code = code;
    // Environment: drop faults, schedule, knobs, API shape one by one.
    let mut attempt = |f: &dyn Fn(&mut Scenario)| {
        let mut t = best.clone();
        f(&mut t);
        if t != best && panic_sig(&t).as_deref() == Some(sig) {
            best = t;
        }
    };
    attempt(&|t| t.wd = WdPlan::lazy());
    attempt(&|t| t.poisoned_table = false);
    attempt(&|t| t.sched = Sched::natural(0));
    attempt(&|t| t.api = Api::OneCall);
    attempt(&|t| t.knobs = Knobs::default());
    attempt(&|t| {
        t.knobs.permissive = false;
    });
    best
}

fn violation_for(sc: &Scenario, out: &Outcome, idx: u64, seed: u64) -> Violation {
    let p = out.panic.clone().unwrap();
    let small = minimise(sc, &p.signature);
    let small_out = sim::run(&small, &RunOpts::default());
    let fp = small_out.fingerprint();
    Violation {
        property:  "C01".into(),
        signature: p.signature.clone(),
        detail:    json!({"case": idx, "seed": seed, "message": p.message, "location": p.location, "function": p.function, "program": hex::encode(&small.code), "original_len": sc.code.len(), "minimised_len": small.code.len(), "schedule": small.sched.label(), "watchdog": small.wd, "api": format!("{:?}", small.api), "knobs": small.knobs}),
        replay:    json!({"check": "C01", "kind": "single", "scenario": small, "expected_fingerprint": format!("{fp:016x}")}),
    }
}

impl Check for C01Check {
    fn info(&self) -> CheckInfo {
        CheckInfo {
            id: "C01",
            level: "exploration",
            rule: "case = one generated program (random bytes 10%, value-growth chains 8%, computed boundary constants used as offsets/sizes/shift amounts/jump targets/slot keys 10%, hostile stack-aware 22%, stack-aware 10%, storage idioms 15%, control flow 10%, mutated/cut corpus contracts 15%) x knobs (default 50%, swarm 50%) x schedule (natural keys 50%, seeded adversarial 50%) x API shape (analyze 50%, staged prefix 20%, VM-then-typechecker incl. continue-on-partial-state 20%, phases 5%, a second execution fed to the same TypeChecker 5%) x poisoned shared table 5%; one fault-free run (under a step budget) and, for 40% of the cases, one more run with a cancellation injected at a uniformly chosen poll of the measured run (sticky, or flapping 1 in 6). evaluations = simulated runs; non-trivial = the run executed a storage instruction and more than three VM steps, or folded a class with >= 2 pieces of evidence; distinct = distinct (program, fold-order or trace digest, cancellation point), counted with a hash set",
            assumptions: &[
                "panics are caught with catch_unwind in the worker; aborts, stack overflows (8 MiB stack for half of the cases, 2 MiB - a spawned thread's default - for the other half) and address-space exhaustion (3 GiB) kill the worker and are attributed to the announced case by the parent",
                "the harness build uses the repository's release settings: overflow-checks on, debug-assertions off",
                "runs that exceed 400k loop iterations are ended by the step budget and are inconclusive here",
                "the limit on a single memory operation is explored from 1 byte to 64 KiB; \"no limit\" is not (memory use is then proportional to attacker-chosen sizes by design, so worker deaths could not be told from defects)",
            ],
            components: super::components(),
        }
    }

    fn stack_bytes(&self, idx: u64) -> usize {
        // Half of the cases on the stack of a main thread, half on the 2 MiB
        // that a spawned Rust thread (a worker pool, a blocking task) has.
        if idx % 4 >= 2 {
            2 * 1024 * 1024
        } else {
            8 * 1024 * 1024
        }
    }

    fn cases(&self, tier: Tier) -> u64 {
        match tier {
            Tier::Quick => 60_000,
            Tier::Thorough => 1_500_000,
        }
    }

    fn run_case(&self, idx: u64, seed: u64, tier: Tier) -> CaseResult {
        let mut res = CaseResult::default();
        let mut r = Rng::new(seed);
        let (mut sc, mut family) = gen_scenario(&mut r, tier);
        if idx < 2 * workload::GROWTH_COMBOS {
            // Twice through every (opcode applied to its own result x use of
            // the grown value) combination, whatever the seed; the rest of the
            // scenario (knobs, schedule, API shape) stays as generated.
            sc.code = workload::gen_growth_combo(idx % workload::GROWTH_COMBOS, &mut r);
            family = "growth_combination";
        }
        res.probe(&format!("workload_{family}"));
        let out = sim::run(&sc, &RunOpts::default());
        account(&mut res, &sc, &out);
        if out.class == Class::Panic {
            res.violations.push(violation_for(&sc, &out, idx, seed));
        } else if r.below(100) < 40 && out.polls > 0 && !out.budget_exhausted {
            // Cancellation placed inside the measured work.
            let mut sc2 = sc.clone();
            let k = r.below(out.polls);
            sc2.wd.stop_at = Some(k);
            sc2.wd.flap = r.chance(1, 6);
            if r.chance(1, 5) {
                sc2.wd.kind = WdKind::Flag;
                sc2.wd.flap = false;
            }
            let out2 = sim::run(&sc2, &RunOpts::default());
            account(&mut res, &sc2, &out2);
            if out2.class == Class::Panic {
                res.violations.push(violation_for(&sc2, &out2, idx, seed));
            }
        }
        if idx < 5 {
            res.sample = Some(json!({"case": idx, "seed": seed, "workload": family, "scenario": sc, "result": out.summary()}));
        }
        let _ = derive;
        res
    }

    fn replay(&self, payload: &Value) -> Result<Option<Violation>, String> {
        let sc: Scenario = serde_json::from_value(payload["scenario"].clone()).map_err(|e| e.to_string())?;
        let out = sim::run(&sc, &RunOpts::default());
        if let Some(fp) = payload["expected_fingerprint"].as_str() {
            let got = format!("{:016x}", out.fingerprint());
            if got != fp && out.class == Class::Panic {
                eprintln!("note: fingerprint differs from the recorded one ({got} vs {fp}); the code under test has changed");
            }
        }
        match &out.panic {
            Some(p) => Ok(Some(Violation {
                property:  "C01".into(),
                signature: p.signature.clone(),
                detail:    json!({"message": p.message, "location": p.location, "function": p.function, "program": hex::encode(&sc.code)}),
                replay:    payload.clone(),
            })),
            None => Ok(None),
        }
    }
}
