//! C14 – unification postconditions: termination, one equality-free type per
//! variable, declared equalities honoured, components of meeting constructors
//! unified – for every judgement set under every schedule.

use std::collections::{BTreeMap, BTreeSet};

use serde_json::{json, Value};
use storage_layout_extractor::{
    tc::expression::{TypeExpression, WordUse, TE},
    verif::{MENU_ALL, MENU_KIND_ASC, MENU_KIND_DESC, MENU_REVERSE},
};

use crate::{
    evidence::{self, run_unify, Delivery, Ev, EvidenceSet, UnifyOpts, UnifyOutcome, USAGES},
    framework::{CaseResult, Check, CheckInfo, Tier, Violation},
    rng::{derive, Rng},
    sim::Sched,
};

pub struct C14Check;
pub static C14: C14Check = C14Check;

/// Reference congruence closure over the declared equalities.
pub struct Uf {
    p: Vec<usize>,
}

impl Uf {
    pub fn new(n: usize) -> Uf {
        Uf { p: (0..n).collect() }
    }

    pub fn find(&mut self, x: usize) -> usize {
        let mut r = x;
        while self.p[r] != r {
            r = self.p[r];
        }
        let mut c = x;
        while self.p[c] != r {
            let n = self.p[c];
            self.p[c] = r;
            c = n;
        }
        r
    }

    pub fn union(&mut self, a: usize, b: usize) {
        let (a, b) = (self.find(a), self.find(b));
        if a != b {
            self.p[b] = a;
        }
    }
}

const WIDTHS: [Option<usize>; 6] = [None, Some(8), Some(32), Some(160), Some(192), Some(256)];

fn gen_word(r: &mut Rng) -> Ev {
    let usage = *r.pick(&USAGES);
    let width = match usage.size() {
        // Fixed-width usages mostly at their width, sometimes not (a rule
        // could emit that).
        Some(w) if r.chance(5, 6) => Some(w),
        _ => *r.pick(&WIDTHS),
    };
    Ev::word(width, usage)
}

fn gen_spans(r: &mut Rng, n_vars: usize) -> Vec<(usize, usize, usize)> {
    let k = r.usize_below(5);
    let mut spans = Vec::new();
    if r.chance(2, 3) {
        // well-formed: increasing, non-overlapping, byte aligned
        let mut at = 0usize;
        for _ in 0..k {
            at += 8 * r.usize_below(4);
            let size = 8 * (1 + r.usize_below(12));
            if at + size > 256 {
                break;
            }
            spans.push((r.usize_below(n_vars), at, size));
            at += size;
        }
    } else {
        // arbitrary: overlapping, unsorted, odd sizes
        for _ in 0..k {
            let off = r.usize_below(250);
            let size = 1 + r.usize_below(256 - off);
            spans.push((r.usize_below(n_vars), off, size));
        }
    }
    spans
}

/// Cyclic packed evidence: a ring of 1..3 variables, each a packed encoding
/// whose first span is the next variable of the ring, plus a sized word on
/// one of them (pushed down into the span every round), plus noise. This is
/// the family that exercises the unifier's stagnation check and round limit.
pub fn gen_packed_cycle(r: &mut Rng) -> EvidenceSet {
    let ring = 1 + r.usize_below(3);
    let extra = r.usize_below(4);
    let n_vars = ring + extra;
    let mut judgements = Vec::new();
    let width = *r.pick(&[8usize, 32, 64, 160, 192]);
    for i in 0..ring {
        let next = (i + 1) % ring;
        let offset = if r.chance(3, 4) { 0 } else { 1 + r.usize_below(16) };
        let mut spans = vec![(next, offset, width)];
        if r.chance(1, 3) && offset + width + 8 <= 256 {
            spans.push((r.usize_below(n_vars), offset + width, 8 * (1 + r.usize_below(((256 - offset - width) / 8).max(1)))));
        }
        judgements.push((
            i,
            Ev::Packed {
                spans,
                is_struct: r.chance(1, 8),
            },
        ));
    }
    let words = 1 + r.usize_below(2);
    for _ in 0..words {
        let usage = *r.pick(&USAGES);
        let w = if r.chance(3, 4) { Some(width) } else { *r.pick(&WIDTHS) };
        judgements.push((r.usize_below(ring), Ev::word(w, usage)));
    }
    for _ in 0..extra {
        let v = r.usize_below(n_vars);
        let e = match r.below(3) {
            0 => Ev::Equal { other: r.usize_below(n_vars) },
            1 => gen_word(r),
            _ => Ev::DynArray { element: r.usize_below(n_vars) },
        };
        judgements.push((v, e));
    }
    r.shuffle(&mut judgements);
    EvidenceSet { n_vars, judgements }
}

/// One huge equivalence class: a hub (or a chain) of 1 200..3 000 variables
/// declared equal, a few of them carrying compatible words.
pub fn gen_hub(r: &mut Rng) -> EvidenceSet {
    let n_vars = 1200 + r.usize_below(1800);
    let mut judgements = Vec::new();
    let chain = r.chance(1, 3);
    let hub = r.usize_below(n_vars);
    for v in 0..n_vars {
        if v == hub {
            continue;
        }
        let other = if chain { if v == 0 { hub } else { v - 1 } } else { hub };
        if r.chance(1, 2) {
            judgements.push((v, Ev::Equal { other }));
        } else {
            judgements.push((other, Ev::Equal { other: v }));
        }
    }
    for _ in 0..3 {
        judgements.push((r.usize_below(n_vars), Ev::word(*r.pick(&[None, Some(160)]), *r.pick(&[WordUse::Bytes, WordUse::UnsignedNumeric, WordUse::Address]))));
    }
    r.shuffle(&mut judgements);
    EvidenceSet { n_vars, judgements }
}

pub fn gen_evidence(r: &mut Rng) -> EvidenceSet {
    if r.chance(1, 8) {
        return gen_packed_cycle(r);
    }
    if r.chance(1, 150) {
        return gen_hub(r);
    }
    if r.chance(1, 40) {
        // a type nested 12-61 levels deep described twice, only the outermost
        // pair declared equal: one level resolves per round (C15's generator)
        return super::c15::generate_deep(r).ev;
    }
    let cap = if r.chance(1, 4) { 39 } else { 10 };
    let n_vars = 2 + r.usize_below(cap);
    let n_j = 1 + r.usize_below(3 * n_vars);
    let cyclic = r.chance(1, 5);
    let with_packed = r.chance(1, 2);
    let mut judgements = Vec::new();
    for _ in 0..n_j {
        let v = r.usize_below(n_vars);
        let other = |r: &mut Rng| {
            if cyclic && r.chance(1, 3) {
                v
            } else {
                r.usize_below(n_vars)
            }
        };
        let e = match r.below(if with_packed { 12 } else { 10 }) {
            0 | 1 | 2 => Ev::Equal { other: r.usize_below(n_vars) },
            3 | 4 | 5 => gen_word(r),
            6 => Ev::Mapping {
                key:   other(r),
                value: other(r),
            },
            7 => Ev::DynArray { element: other(r) },
            8 => Ev::FixedArray {
                element: other(r),
                length:  *r.pick(&[3u64, 5, 5, 0, 1, evidence::WIDE_LENGTH]),
            },
            9 => {
                if r.chance(1, 2) {
                    Ev::Any
                } else {
                    Ev::Bytes
                }
            }
            _ => Ev::Packed {
                spans:     gen_spans(r, n_vars),
                is_struct: r.chance(1, 5),
            },
        };
        judgements.push((v, e));
    }
    EvidenceSet { n_vars, judgements }
}

pub fn schedules(seed: u64) -> Vec<Sched> {
    vec![
        Sched::natural(0),
        Sched::natural(derive(seed, 1)),
        Sched::natural(derive(seed, 2)),
        Sched::adversarial(1, 1000, MENU_REVERSE),
        Sched::adversarial(2, 1000, MENU_KIND_ASC | MENU_KIND_DESC),
        Sched::adversarial(derive(seed, 3), 600, MENU_ALL),
    ]
}

fn class_kinds(ev: &EvidenceSet, o: &UnifyOutcome, v: usize) -> Vec<String> {
    // The input evidence of v's final class, type variables erased.
    let mut k: Vec<String> = ev
        .judgements
        .iter()
        .filter(|(x, e)| !matches!(e, Ev::Equal { .. }) && o.same_class(*x, v))
        .map(|(_, e)| erase(e))
        .collect();
    k.sort();
    k.dedup();
    k
}

fn erase(e: &Ev) -> String {
    match e {
        Ev::Mapping { .. } => "Mapping".into(),
        Ev::DynArray { .. } => "DynArray".into(),
        Ev::FixedArray { length, .. } => format!("FixedArray[{length}]"),
        Ev::Packed { spans, is_struct } => format!(
            "{}[{}]",
            if *is_struct { "Struct" } else { "Packed" },
            spans.iter().map(|(_, o, s)| format!("{o}+{s}")).collect::<Vec<_>>().join(",")
        ),
        other => other.kind(),
    }
}

/// Evaluates the postconditions; returns (signature, detail).
pub fn postconditions(ev: &EvidenceSet, o: &UnifyOutcome) -> Option<(String, Value)> {
    if let Some(p) = &o.panic {
        return Some((format!("unify-{}", p.signature), json!({"message": p.message, "location": p.location})));
    }
    if o.budget_exhausted {
        return Some((
            "nontermination".to_string(),
            json!({"polls": o.polls, "rounds": o.record.unify_rounds, "note": "unify did not return within the step budget"}),
        ));
    }
    if let Some(e) = &o.error {
        return Some((format!("unify-error:{e}"), json!({"error": e})));
    }
    // 2. one equality-free expression per variable. A variable counts when it
    //    was declared or when some resolved type refers to it (a fresh variable
    //    that nothing refers to may legitimately never enter the forest).
    let mut referenced: BTreeSet<usize> = (0..ev.n_vars).collect();
    for d in o.data.iter().flatten() {
        for e in d {
            match e {
                TE::Mapping { key, value } => {
                    referenced.insert(evidence::tv_index(*key));
                    referenced.insert(evidence::tv_index(*value));
                }
                TE::DynamicArray { element } | TE::FixedArray { element, .. } => {
                    referenced.insert(evidence::tv_index(*element));
                }
                TE::Packed { types, .. } => {
                    for t in types {
                        referenced.insert(evidence::tv_index(t.typ));
                    }
                }
                _ => {}
            }
        }
    }
    for v in 0..o.n_after {
        match &o.data[v] {
            None if !referenced.contains(&v) => {}
            None => {
                // A variable that exists (declared, or allocated while
                // merging and referred to by resolved types) but has no entry
                // in the result forest: `type_of` fails for it.
                return Some((
                    "no-resolved-type:variable-missing-from-forest".to_string(),
                    json!({"variable": v, "declared_variables": ev.n_vars, "variables_after_unification": o.n_after}),
                ));
            }
            Some(d) => {
                if d.len() > 1 {
                    let mut kinds: Vec<String> = d.iter().map(evidence::te_kind).collect();
                    kinds.sort();
                    // The signature keeps the constructor families only: spans
                    // and widths are data, the defect is which kinds are left
                    // unmerged.
                    let mut fam: Vec<String> = kinds.iter().map(|k| k.split(|c| c == '(' || c == '[').next().unwrap_or("").to_string()).collect();
                    fam.sort();
                    fam.dedup();
                    return Some((
                        format!("unresolved:[{}]", fam.join(", ")),
                        json!({"variable": v, "left_with": kinds, "input_evidence_of_class": if v < ev.n_vars { class_kinds(ev, o, v) } else { vec![] }}),
                    ));
                }
                if d.iter().any(|e| matches!(e, TE::Equal { .. })) {
                    return Some(("equality-left".to_string(), json!({"variable": v})));
                }
            }
        }
    }
    // 3. declared equalities honoured
    let mut uf = Uf::new(ev.n_vars);
    for (v, e) in &ev.judgements {
        if let Ev::Equal { other } = e {
            uf.union(*v, *other);
        }
    }
    for a in 0..ev.n_vars {
        let ra = uf.find(a);
        if !o.same_class(a, ra) {
            return Some((
                "declared-equality-not-honoured".to_string(),
                json!({"a": a, "b": ra, "note": "variables declared equal (transitively) ended in different classes"}),
            ));
        }
    }
    // 4. constructors that met have unified components, unless the class is a
    //    conflict
    let mut by_class: BTreeMap<usize, Vec<&Ev>> = BTreeMap::new();
    for (v, e) in &ev.judgements {
        by_class.entry(o.class[*v]).or_default().push(e);
    }
    for (cls, evs) in &by_class {
        let resolved: Option<&TypeExpression> = o.data[*cls].as_ref().and_then(|d| d.first());
        if matches!(resolved, Some(TE::Conflict { .. })) {
            continue;
        }
        // Only where the constructor survives: the statement is about
        // constructed types that met and were combined; a class resolved to
        // something else (e.g. dynamic bytes absorbing arrays) is not covered.
        match resolved {
            Some(TE::Mapping { key, value }) => {
                let (rk, rv) = (evidence::tv_index(*key), evidence::tv_index(*value));
                for e in evs {
                    if let Ev::Mapping { key, value } = e {
                        if !o.same_class(*key, rk) || !o.same_class(*value, rv) {
                            return Some((
                                "components-not-unified:Mapping".to_string(),
                                json!({"class_root": cls, "resolved": "Mapping", "evidence_mapping": [key, value], "resolved_components": [rk, rv]}),
                            ));
                        }
                    }
                }
            }
            Some(TE::DynamicArray { element }) => {
                let re = evidence::tv_index(*element);
                for e in evs {
                    if let Ev::DynArray { element } = e {
                        if !o.same_class(*element, re) {
                            return Some((
                                "components-not-unified:DynArray".to_string(),
                                json!({"class_root": cls, "resolved": "DynArray", "evidence_element": element, "resolved_element": re}),
                            ));
                        }
                    }
                }
            }
            Some(TE::FixedArray { element, length }) => {
                let re = evidence::tv_index(*element);
                for e in evs {
                    if let Ev::FixedArray { element, length: l } = e {
                        if evidence::real_length(*l) == *length && !o.same_class(*element, re) {
                            return Some((
                                format!("components-not-unified:FixedArray[{l}]"),
                                json!({"class_root": cls, "resolved": "FixedArray", "evidence_element": element, "resolved_element": re}),
                            ));
                        }
                    }
                }
            }
            _ => {}
        }
    }
    // 4b. The same clause seen from the evidence rather than from the
    //     resolved type: a class whose whole evidence is one constructor (all
    //     mappings, all dynamic arrays, all fixed arrays of one length; `Any`
    //     and equalities aside) is not contradictory, so its components must
    //     have been unified whatever the class resolved to. Classes that a
    //     packed encoding refers to are left out: merging packed encodings
    //     pushes further word evidence onto their span variables, so the input
    //     judgements are not the whole evidence there.
    let mut packed_targets: BTreeSet<usize> = BTreeSet::new();
    for (_, e) in &ev.judgements {
        if let Ev::Packed { spans, .. } = e {
            for (v, _, _) in spans {
                packed_targets.insert(o.class[*v]);
            }
        }
    }
    for (cls, evs) in &by_class {
        if packed_targets.contains(cls) {
            continue;
        }
        let solid: Vec<&&Ev> = evs.iter().filter(|e| !matches!(e, Ev::Equal { .. } | Ev::Any)).collect();
        if solid.len() < 2 {
            continue;
        }
        let components: Option<Vec<Vec<usize>>> = match solid[0] {
            Ev::Mapping { .. } => solid
                .iter()
                .map(|e| match e {
                    Ev::Mapping { key, value } => Some(vec![*key, *value]),
                    _ => None,
                })
                .collect(),
            Ev::DynArray { .. } => solid
                .iter()
                .map(|e| match e {
                    Ev::DynArray { element } => Some(vec![*element]),
                    _ => None,
                })
                .collect(),
            Ev::FixedArray { length: first, .. } => solid
                .iter()
                .map(|e| match e {
                    Ev::FixedArray { element, length } if length == first => Some(vec![*element]),
                    _ => None,
                })
                .collect(),
            _ => None,
        };
        let Some(components) = components else {
            continue;
        };
        for other in &components[1..] {
            for (a, b) in components[0].iter().zip(other.iter()) {
                if !o.same_class(*a, *b) {
                    let kind = match solid[0] {
                        Ev::Mapping { .. } => "Mapping".to_string(),
                        Ev::DynArray { .. } => "DynArray".to_string(),
                        Ev::FixedArray { length, .. } if *length >= evidence::WIDE_LENGTH_BASE => "FixedArray[beyond 64 bits]".to_string(),
                        Ev::FixedArray { length, .. } => format!("FixedArray[{length}]"),
                        _ => unreachable!(),
                    };
                    return Some((
                        format!("components-not-unified:all-evidence-{kind}"),
                        json!({"class_root": cls, "components_a": components[0], "components_b": other, "resolved": o.data[*cls].as_ref().and_then(|d| d.first()).map(evidence::te_kind)}),
                    ));
                }
            }
        }
    }
    None
}

/// Drops judgements / variables while the same signature persists.
fn minimise(ev: &EvidenceSet, sched: &Sched, sig: &str, mode: Delivery) -> EvidenceSet {
    let opts = || UnifyOpts {
        mode,
        ..UnifyOpts::default()
    };
    let mut best = ev.clone();
    let mut budget = 400;
    let mut i = 0;
    while i < best.judgements.len() && budget > 0 {
        let mut cand = best.clone();
        cand.judgements.remove(i);
        budget -= 1;
        let o = run_unify(&cand, sched, &opts());
        if postconditions(&cand, &o).map(|x| x.0).as_deref() == Some(sig) {
            best = cand;
        } else {
            i += 1;
        }
    }
    // Compact the variable numbering.
    let mut used: BTreeSet<usize> = BTreeSet::new();
    for (v, e) in &best.judgements {
        used.insert(*v);
        used.extend(e.vars());
    }
    let map: BTreeMap<usize, usize> = used.iter().enumerate().map(|(i, v)| (*v, i)).collect();
    let compact = EvidenceSet {
        n_vars:     map.len().max(1),
        judgements: best.judgements.iter().map(|(v, e)| (map[v], e.rename(&|x| map[&x]))).collect(),
    };
    let o = run_unify(&compact, sched, &opts());
    if postconditions(&compact, &o).map(|x| x.0).as_deref() == Some(sig) {
        compact
    } else {
        best
    }
}

impl Check for C14Check {
    fn info(&self) -> CheckInfo {
        CheckInfo {
            id: "C14",
            level: "exploration",
            rule: "case = one generated judgement set over 2..40 type variables (equalities, words of all usages x widths {?,8,32,160,192,256}, dynamic bytes, mappings, fixed arrays of lengths 0, 1, 3, 5 and 2^200+3, dynamic arrays, Any; half of the sets also packed encodings with well-formed or arbitrary overlapping/unsorted spans; cyclic references in 1 of 5 sets; 1 of 8 sets is a ring of 1..3 packed encodings whose first span is the next variable of the ring plus a sized word, the family that reaches the unifier's stagnation check and round limit; 1 of 150 is one class of 1 200..3 000 variables declared equal as a star or a chain; 1 of 40 is a type nested 12..61 levels deep described twice with only the outermost pair declared equal), unified under 6 schedules (3 natural hash keys, reverse-all, fold kind-sorted, seeded random) that rotate through nine equivalent ways of handing the set to the library (plain; the state object used twice with half of the variables allocated the way rules allocate them; equalities recorded on one side only; through TypeChecker::unify; in two stages with a unification in between, through the free function or through the checker; equalities through infer_many; a clone of the state unified and observed); harness variables are opaque values, repeated registrations of the constant 1 and of CALLER; evaluations = unifier runs; non-trivial = the run folded at least one class with >= 2 pieces of evidence; distinct = distinct (judgement set, fold-order digest), counted with a hash set",
            assumptions: &[
                "the unifier is driven through TypeCheckerState::register/infer and unification::unify, as the type checker itself does",
                "reference model is one-directional: model-equal implies implementation-equal; additional unions are not forbidden",
                "termination is judged against a step budget of 3,000,000 class-folds (polls at poll_every = 1), far above what the library's own round limit allows",
            ],
            components: json!({"real": ["TypeCheckerState (register/infer)", "unification::unify", "merge", "DisjointSet forest"], "stubbed": ["hash seeding and iteration order (cfg hook)", "value identifiers (cfg hook)", "watchdog -> step budget"]}),
        }
    }

    fn cases(&self, tier: Tier) -> u64 {
        match tier {
            Tier::Quick => 40_000,
            Tier::Thorough => 1_000_000,
        }
    }

    fn run_case(&self, idx: u64, seed: u64, _tier: Tier) -> CaseResult {
        let mut res = CaseResult::default();
        let mut r = Rng::new(seed);
        let ev = gen_evidence(&mut r);
        let has_packed = ev.judgements.iter().any(|(_, e)| matches!(e, Ev::Packed { .. }));
        res.probe(if has_packed { "sets_with_packed" } else { "sets_without_packed" });
        for (six, sched) in schedules(seed).into_iter().enumerate() {
            let mode = Delivery::for_schedule(six, seed);
            let uopts = UnifyOpts {
                mode,
                ..UnifyOpts::default()
            };
            let o = run_unify(&ev, &sched, &uopts);
            res.runs += 1;
            res.steps += o.polls;
            if o.record.folds_multi > 0 {
                res.fold_orders.push(o.record.fold_digest);
                let mut h = std::collections::hash_map::DefaultHasher::new();
                std::hash::Hash::hash(&(seed, o.record.fold_digest), &mut h);
                res.nontrivial.push(std::hash::Hasher::finish(&h));
            }
            if o.record.permuted_events > 0 {
                res.fault("schedule_permutation_applied");
            }
            if o.n_after > ev.n_vars {
                res.probe("fresh_variables_allocated");
            }
            if o.record.unify_rounds > 3 {
                res.probe("more_than_three_rounds");
            }
            if o.record.unify_rounds >= 100 {
                res.probe("unifier_round_limit_reached");
            }
            if o.data.iter().flatten().any(|d| d.iter().any(|e| matches!(e, TE::Conflict { .. }))) {
                res.probe("some_class_conflicted");
            }
            if let Some((sig, detail)) = postconditions(&ev, &o) {
                let small = minimise(&ev, &sched, &sig, mode);
                res.violations.push(Violation {
                    property:  "C14".into(),
                    signature: sig,
                    detail:    json!({"case": idx, "seed": seed, "schedule": sched.label(), "explanation": detail, "evidence": small.judgements.iter().map(|(v, e)| format!("v{v}: {}", e.kind())).collect::<Vec<_>>(), "original_judgements": ev.judgements.len()}),
                    replay:    json!({"check": "C14", "kind": "evidence", "evidence": small, "sched": sched, "mode": mode}),
                });
                break;
            }
        }
        if idx < 4 {
            res.sample = Some(json!({"case": idx, "seed": seed, "n_vars": ev.n_vars, "judgements": ev.judgements.iter().map(|(v, e)| format!("v{v}: {}", e.kind())).collect::<Vec<_>>()}));
        }
        let _ = WordUse::Bytes;
        res
    }

    fn replay(&self, payload: &Value) -> Result<Option<Violation>, String> {
        let ev: EvidenceSet = serde_json::from_value(payload["evidence"].clone()).map_err(|e| e.to_string())?;
        let sched: Sched = serde_json::from_value(payload["sched"].clone()).map_err(|e| e.to_string())?;
        let mode: Delivery = serde_json::from_value(payload["mode"].clone()).unwrap_or(Delivery::Plain);
        let o = run_unify(
            &ev,
            &sched,
            &UnifyOpts {
                mode,
                ..UnifyOpts::default()
            },
        );
        Ok(postconditions(&ev, &o).map(|(sig, detail)| Violation {
            property:  "C14".into(),
            signature: sig,
            detail,
            replay:    payload.clone(),
        }))
    }
}
