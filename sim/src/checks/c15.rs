//! C15 – compatible evidence joins to its most specific type and never
//! conflicts; plainly contradictory evidence conflicts. Checked against a
//! small reference model (congruence closure + the documented word lattice)
//! under several schedules per judgement set.

use std::collections::BTreeSet;

use serde_json::{json, Value};
use storage_layout_extractor::{
    tc::expression::{WordUse, TE},
    verif::{MENU_ALL, MENU_KIND_ASC, MENU_KIND_DESC, MENU_REVERSE, MENU_SHUFFLE},
};

use crate::{
    evidence::{self, run_unify, Delivery, usage_name, Ev, EvidenceSet, UnifyOpts, UnifyOutcome},
    framework::{CaseResult, Check, CheckInfo, Tier, Violation},
    rng::{derive, Rng},
    sim::Sched,
};

thread_local! {
    static FORCE_FRESH: std::cell::Cell<bool> = std::cell::Cell::new(false);
    /// Component classes of the current many-pieces class that already have a
    /// component equated with one of the class's earlier variables.
    static LINKED: std::cell::RefCell<Vec<usize>> = std::cell::RefCell::new(Vec::new());
}

pub struct C15Check;
pub static C15: C15Check = C15Check;

#[derive(Clone, Debug)]
enum Truth {
    Word { width: Option<usize>, usage: WordUse },
    DynBytes,
    Mapping { key: usize, value: usize },
    DynArray { element: usize },
    FixedArray { element: usize, length: u64 },
    /// A packed word: spans (class, offset, size) of word classes with known
    /// widths, the first at offset 0.
    Packed { spans: Vec<(usize, usize, usize)> },
}

/// Usages at or below `u` in the documented order (`WordUse::merge`).
fn below(u: WordUse) -> Vec<WordUse> {
    use WordUse::*;
    match u {
        Bytes => vec![Bytes],
        Numeric => vec![Numeric, Bytes],
        UnsignedNumeric => vec![UnsignedNumeric, Numeric, Bytes],
        SignedNumeric => vec![SignedNumeric, Numeric, Bytes],
        Address => vec![Address, UnsignedNumeric, Numeric, Bytes],
        Bool => vec![Bool, Bytes],
        Selector => vec![Selector, Bytes],
        Function => vec![Function, Bytes],
    }
}

/// The reference join of two usages that are known to be compatible.
fn join(a: WordUse, b: WordUse) -> WordUse {
    if below(a).contains(&b) {
        a
    } else if below(b).contains(&a) {
        b
    } else {
        // Only reachable for (Unsigned, Address)-style chains, handled above;
        // anything else would be an incompatible pair, which compatible sets
        // never contain.
        a
    }
}

#[derive(Clone, Debug)]
struct Model {
    /// Class of every variable.
    class_of: Vec<usize>,
    truths:   Vec<Truth>,
    /// Evidence emitted per class (before any injection).
    emitted:  Vec<Vec<Ev>>,
}

#[derive(Clone, Debug)]
pub struct Generated {
    pub ev:       EvidenceSet,
    model:        Model,
    /// The class that received a contradictory judgement, if any.
    pub target:   Option<usize>,
    pub injected: Option<String>,
    pub packed_classes: usize,
    pub pushed_words:   usize,
    /// The packed-views family (see `generate_views`).
    pub views:          bool,
}

fn depth(truths: &[Truth], c: usize) -> usize {
    match &truths[c] {
        Truth::Word { .. } | Truth::DynBytes => 1,
        Truth::Mapping { key, value } => 1 + depth(truths, *key).max(depth(truths, *value)),
        Truth::DynArray { element } | Truth::FixedArray { element, .. } => 1 + depth(truths, *element),
        Truth::Packed { spans } => 1 + spans.iter().map(|s| depth(truths, s.0)).max().unwrap_or(0),
    }
}

fn gen_word_truth(r: &mut Rng) -> Truth {
    use WordUse::*;
    let usage = *r.pick(&[Bytes, Numeric, UnsignedNumeric, SignedNumeric, Bool, Address, Selector, Function, UnsignedNumeric, Address]);
    let width = match usage.size() {
        Some(w) => Some(w),
        None => *r.pick(&[None, Some(8), Some(32), Some(64), Some(128), Some(160), Some(256)]),
    };
    Truth::Word { width, usage }
}

pub fn generate(r: &mut Rng, contradictory: bool) -> Generated {
    // A quarter of the sets are minimal: two to four classes with one piece
    // of evidence each (plus what a packed class pushes onto its field), so
    // that rounds in which only a single judgement moves actually occur.
    let minimal = r.chance(1, 4);
    let n_classes = if minimal { 2 + r.usize_below(3) } else { 2 + r.usize_below(9) };
    let mut truths: Vec<Truth> = Vec::new();
    for c in 0..n_classes {
        let t = if c == 0 || r.chance(1, 2) {
            if r.chance(1, 8) {
                Truth::DynBytes
            } else {
                gen_word_truth(r)
            }
        } else {
            let pick = |r: &mut Rng, truths: &[Truth]| {
                // A component of depth <= 2, so that nesting stays <= 3.
                for _ in 0..8 {
                    let k = r.usize_below(c);
                    if depth(truths, k) <= 2 {
                        return k;
                    }
                }
                0
            };
            // Word classes of known width below a full word can be packed.
            let packable: Vec<(usize, usize)> = truths
                .iter()
                .enumerate()
                .filter_map(|(k, t)| match t {
                    Truth::Word { width: Some(w), .. } if *w <= 200 => Some((k, *w)),
                    _ => None,
                })
                .collect();
            let roll = if packable.is_empty() { r.below(4) } else { r.below(6) };
            match roll {
                4 | 5 => {
                    let (k0, w0) = *r.pick(&packable);
                    let mut spans = vec![(k0, 0usize, w0)];
                    if r.chance(1, 2) {
                        let (k1, w1) = *r.pick(&packable);
                        if w0 + w1 <= 256 {
                            spans.push((k1, w0, w1));
                        }
                    }
                    Truth::Packed { spans }
                }
                0 | 1 => Truth::Mapping {
                    key:   pick(r, &truths),
                    value: pick(r, &truths),
                },
                2 => Truth::DynArray { element: pick(r, &truths) },
                _ => Truth::FixedArray {
                    element: pick(r, &truths),
                    length:  *r.pick(&[3u64, 5, 10, 0, 1, evidence::WIDE_LENGTH]),
                },
            }
        };
        truths.push(t);
    }
    // Variables per class.
    let mut class_of: Vec<usize> = Vec::new();
    let mut vars_of: Vec<Vec<usize>> = vec![Vec::new(); n_classes];
    for c in 0..n_classes {
        let k = 1 + r.usize_below(3);
        for _ in 0..k {
            vars_of[c].push(class_of.len());
            class_of.push(c);
        }
    }
    LINKED.with(|l| l.borrow_mut().clear());
    let mut judgements: Vec<(usize, Ev)> = Vec::new();
    let mut emitted: Vec<Vec<Ev>> = vec![Vec::new(); n_classes];
    let mut pushed_words = 0usize;
    let many_class = if r.chance(1, 24) {
        truths
            .iter()
            .position(|t| matches!(t, Truth::DynArray { .. } | Truth::FixedArray { .. } | Truth::Mapping { .. }))
            .unwrap_or(usize::MAX)
    } else {
        usize::MAX
    };
    let packed_classes = truths.iter().filter(|t| matches!(t, Truth::Packed { .. })).count();
    // A component variable of class k: an existing one, or a fresh one equated
    // to an existing one.
    let component = |r: &mut Rng, k: usize, class_of: &mut Vec<usize>, vars_of: &mut Vec<Vec<usize>>, judgements: &mut Vec<(usize, Ev)>| -> usize {
        // (many-pieces mode: three components in four are fresh variables;
        // the rest are shared with other pieces, so that pieces meet which
        // have one component in common and differ in the other)
        if vars_of[k].len() < 1600 && FORCE_FRESH.with(std::cell::Cell::get) && r.chance(3, 4) {
            // (many-pieces mode) always a fresh element variable; half of
            // them are tied to their class by nothing but the constructor
            // merge that the piece of evidence takes part in
            // (only in sets without a contradiction: a conflicted class
            // does not unify its components, and evidence that only meets in
            // a later round is the grouping question C16 owns)
            // (the first component made for a class in this mode is always
            // equated with a variable the class already had - all of which
            // are tied to the class by stated equalities - so that the
            // components as a whole, which the constructor merges unite, stay
            // tied to the class)
            let linked = LINKED.with(|l| l.borrow().contains(&k));
            if !contradictory && linked && r.chance(1, 2) {
                let fresh = class_of.len();
                class_of.push(k);
                vars_of[k].push(fresh);
                return fresh;
            }
            LINKED.with(|l| l.borrow_mut().push(k));
        } else if r.chance(1, 2) {
            return *r.pick(&vars_of[k]);
        }
        if false {
            *r.pick(&vars_of[k])
        } else {
            let fresh = class_of.len();
            class_of.push(k);
            let old = *r.pick(&vars_of[k]);
            vars_of[k].push(fresh);
            if r.chance(1, 2) {
                judgements.push((fresh, Ev::Equal { other: old }));
            } else {
                judgements.push((old, Ev::Equal { other: fresh }));
            }
            fresh
        }
    };
    for c in 0..n_classes {
        // Equalities: a random spanning tree over the class's variables.
        let vs = vars_of[c].clone();
        for i in 1..vs.len() {
            let j = r.usize_below(i);
            judgements.push((vs[i], Ev::Equal { other: vs[j] }));
        }
        // Now and then one array class carries hundreds of distinct pieces
        // (each over its own fresh-but-equated element variable).
        let many = !minimal && c == many_class;
        // ... and now and then all of them are stated about one variable,
        // more than a thousand of them
        let one_holder = many && r.chance(1, 3);
        let the_holder = *r.pick(&vars_of[c]);
        let n_ev = if minimal {
            1
        } else if one_holder {
            1050 + r.usize_below(300)
        } else if many {
            260 + r.usize_below(200)
        } else {
            1 + r.usize_below(5)
        };
        FORCE_FRESH.with(|f| f.set(many));
        for _ in 0..n_ev {
            let holder = if one_holder { the_holder } else { *r.pick(&vars_of[c]) };
            let e = if !minimal && r.chance(1, 8) {
                Ev::Any
            } else {
                match truths[c].clone() {
                    Truth::Word { width, usage } => {
                        let u = *r.pick(&below(usage));
                        // "Width dropped" is a weakening for every usage,
                        // also for those with an intrinsic size.
                        let w = match u.size() {
                            Some(fixed) => {
                                if r.chance(2, 3) {
                                    Some(fixed)
                                } else {
                                    None
                                }
                            }
                            None => {
                                if r.chance(1, 2) {
                                    width
                                } else {
                                    None
                                }
                            }
                        };
                        Ev::word(w, u)
                    }
                    Truth::DynBytes => Ev::Bytes,
                    Truth::Mapping { key, value } => Ev::Mapping {
                        key:   component(r, key, &mut class_of, &mut vars_of, &mut judgements),
                        value: component(r, value, &mut class_of, &mut vars_of, &mut judgements),
                    },
                    Truth::DynArray { element } => Ev::DynArray {
                        element: component(r, element, &mut class_of, &mut vars_of, &mut judgements),
                    },
                    Truth::FixedArray { element, length } => Ev::FixedArray {
                        element: component(r, element, &mut class_of, &mut vars_of, &mut judgements),
                        length,
                    },
                    Truth::Packed { spans } => {
                        // Evidence about the first field stated on the packed
                        // word itself: a word of a special usage whose width is
                        // the first span's is the library's documented way of
                        // typing that field (merge pushes it onto the span).
                        let (k0, _, w0) = spans[0];
                        // Decided per class (even classes push words, odd
                        // ones may list their spans in any order: pushing
                        // looks at the first listed span).
                        let pushes = minimal || c % 2 == 0;
                        if let Truth::Word { usage, .. } = truths[k0] {
                            if pushes && (minimal || r.chance(1, 2)) && matches!(usage, WordUse::Address | WordUse::Bool | WordUse::SignedNumeric | WordUse::Selector | WordUse::Function) {
                                let pushed = Ev::word(Some(w0), usage);
                                pushed_words += 1;
                                emitted[k0].push(pushed.clone());
                                judgements.push((holder, pushed));
                            }
                        }
                        let mut listed: Vec<(usize, usize, usize)> = spans
                            .iter()
                            .map(|(k, o, w)| (component(r, *k, &mut class_of, &mut vars_of, &mut judgements), *o, *w))
                            .collect();
                        if !pushes && r.chance(1, 2) {
                            listed.reverse();
                        }
                        Ev::Packed {
                            spans:     listed,
                            // some of the evidence says the fields form a
                            // struct; one such piece makes the value a struct
                            is_struct: c % 3 == 0 && r.chance(1, 2),
                        }
                    }
                }
            };
            emitted[c].push(e.clone());
            judgements.push((holder, e));
        }
        // A `bytes`/`string` slot is also seen as the packed header of its
        // first word - flag bit, short length, data: spans (0,1), (1,7),
        // (8,248), any non-empty subset of them, listed in any order - which
        // the library documents as compatible with dynamic bytes.
        if !contradictory && matches!(truths[c], Truth::DynBytes) && emitted[c].iter().any(|e| matches!(e, Ev::Bytes)) && r.chance(1, 2) {
            let mut spans: Vec<(usize, usize, usize)> = Vec::new();
            for (o, w) in [(0usize, 1usize), (1, 7), (8, 248)] {
                if r.chance(2, 3) {
                    let v = class_of.len();
                    class_of.push(usize::MAX);
                    spans.push((v, o, w));
                }
            }
            if !spans.is_empty() {
                r.shuffle(&mut spans);
                let holder = *r.pick(&vars_of[c]);
                judgements.push((holder, Ev::Packed { spans, is_struct: false }));
            }
        }
    }
    let mut target = None;
    let mut injected = None;
    if contradictory {
        // Choose a class whose emitted evidence can be contradicted.
        let mut order: Vec<usize> = (0..n_classes).collect();
        r.shuffle(&mut order);
        'outer: for c in order {
            let non_any: Vec<&Ev> = emitted[c].iter().filter(|e| !matches!(e, Ev::Any)).collect();
            if non_any.is_empty() {
                continue;
            }
            let holder = *r.pick(&vars_of[c]);
            let mut fresh = |class_of: &mut Vec<usize>| {
                let v = class_of.len();
                // A fresh component variable belongs to no model class that
                // is checked: give it a class of its own.
                class_of.push(usize::MAX);
                v
            };
            let inj: Option<Ev> = match non_any[0] {
                Ev::Word { .. } => {
                    let known_width = non_any.iter().find_map(|e| if let Ev::Word { width: Some(w), .. } = e { Some(*w) } else { None });
                    let usages: Vec<WordUse> = non_any.iter().filter_map(|e| if let Ev::Word { usage, .. } = e { Some(evidence::USAGES[*usage as usize]) } else { None }).collect();
                    let mut options: Vec<Ev> = Vec::new();
                    if let Some(w) = known_width {
                        // two different widths
                        let other = *r.pick(&[8usize, 32, 64, 128, 160, 256]);
                        if other != w {
                            options.push(Ev::word(Some(other), WordUse::Bytes));
                        }
                    }
                    // incompatible usages
                    if usages.iter().any(|u| matches!(u, WordUse::UnsignedNumeric | WordUse::Address)) {
                        options.push(Ev::word(None, WordUse::SignedNumeric));
                    }
                    if usages.iter().any(|u| matches!(u, WordUse::SignedNumeric)) {
                        options.push(Ev::word(None, WordUse::UnsignedNumeric));
                    }
                    if usages.iter().any(|u| matches!(u, WordUse::Bool)) {
                        options.push(Ev::word(Some(160), WordUse::Address));
                    }
                    if usages.iter().any(|u| matches!(u, WordUse::Selector)) {
                        options.push(Ev::word(Some(192), WordUse::Function));
                    }
                    if usages.iter().any(|u| matches!(u, WordUse::Function)) {
                        options.push(Ev::word(Some(32), WordUse::Selector));
                    }
                    if usages.iter().any(|u| matches!(u, WordUse::Address)) {
                        options.push(Ev::word(Some(8), WordUse::Bool));
                    }
                    if options.is_empty() {
                        None
                    } else {
                        Some(r.pick(&options).clone())
                    }
                }
                Ev::Mapping { .. } => Some(match r.below(4) {
                    0 => Ev::DynArray { element: fresh(&mut class_of) },
                    1 => Ev::FixedArray {
                        element: fresh(&mut class_of),
                        length:  3,
                    },
                    2 => Ev::word(Some(256), WordUse::UnsignedNumeric),
                    _ => Ev::word(Some(160), WordUse::Address),
                }),
                Ev::FixedArray { length, .. } if r.chance(1, 2) => {
                    // a fixed array of a different length (the unit tests pin
                    // this as a conflict); lengths are 256-bit quantities
                    let element = fresh(&mut class_of);
                    Some(match r.below(4) {
                        0 => Ev::FixedArray {
                            element,
                            length: *length + 1,
                        },
                        _ if *length >= evidence::WIDE_LENGTH_BASE => Ev::FixedArray { element, length: 3 },
                        1 => Ev::FixedArrayBig {
                            element,
                            hi: 1,
                            lo: *length,
                        },
                        2 => Ev::FixedArrayBig {
                            element,
                            hi: 1 << 32,
                            lo: *length,
                        },
                        _ => Ev::FixedArray {
                            element,
                            length: *length + (1 << 32),
                        },
                    })
                }
                Ev::DynArray { .. } if r.chance(1, 2) => {
                    // "two different widths" on a value that is also used as
                    // an array: the pair of words is the contradiction (an
                    // array tolerates one unsigned word, its length)
                    judgements.push((holder, Ev::word(Some(160), WordUse::Address)));
                    Some(Ev::word(Some(8), WordUse::Bool))
                }
                Ev::DynArray { .. } | Ev::FixedArray { .. } => Some(Ev::Mapping {
                    key:   fresh(&mut class_of),
                    value: fresh(&mut class_of),
                }),
                _ => None,
            };
            if let Some(e) = inj {
                injected = Some(e.kind());
                judgements.push((holder, e));
                target = Some(c);
                break 'outer;
            }
        }
    }
    // Deliver the judgements in a random order: `infer` inserts into sets, so
    // this only perturbs hash-table history.
    r.shuffle(&mut judgements);
    let n_vars = class_of.len();
    Generated {
        ev: EvidenceSet { n_vars, judgements },
        model: Model {
            class_of,
            truths,
            emitted,
        },
        target,
        injected,
        packed_classes,
        pushed_words,
        views: false,
    }
}

/// A type nested `depth` levels deep, described twice with different
/// variables: only the two outermost variables are declared equal, every
/// deeper pair becomes equal through component unification, one level per
/// round of the unifier.
pub fn generate_deep(r: &mut Rng) -> Generated {
    let depth = 12 + r.usize_below(50);
    // class 0 = leaf word, class i = constructor over class i-1
    let leaf_usage = *r.pick(&[WordUse::Address, WordUse::UnsignedNumeric, WordUse::SignedNumeric, WordUse::Bool]);
    let leaf_width = leaf_usage.size().or(Some(64));
    let mut truths = vec![Truth::Word {
        width: leaf_width,
        usage: leaf_usage,
    }];
    let mut key_class = None;
    for i in 1..=depth {
        let t = match r.below(3) {
            0 => Truth::DynArray { element: i - 1 },
            1 => Truth::FixedArray {
                element: i - 1,
                length:  *r.pick(&[3u64, 5, 0, evidence::WIDE_LENGTH]),
            },
            _ => {
                // mapping with a shared word key class (added below)
                key_class = Some(depth + 1);
                Truth::Mapping {
                    key:   depth + 1,
                    value: i - 1,
                }
            }
        };
        truths.push(t);
    }
    if key_class.is_some() {
        truths.push(Truth::Word {
            width: Some(160),
            usage: WordUse::Address,
        });
    }
    let n_classes = truths.len();
    // two variables per class: the "left" and the "right" description
    let mut class_of = Vec::new();
    for c in 0..n_classes {
        class_of.push(c);
        class_of.push(c);
    }
    let var = |c: usize, side: usize| 2 * c + side;
    let mut judgements: Vec<(usize, Ev)> = Vec::new();
    let mut emitted: Vec<Vec<Ev>> = vec![Vec::new(); n_classes];
    for c in 0..n_classes {
        for side in 0..2 {
            let e = match truths[c].clone() {
                Truth::Word { width, usage } => {
                    // the two sides give different, compatible weakenings
                    let below_u = below(usage);
                    let u = if side == 0 { usage } else { *r.pick(&below_u) };
                    let w = match u.size() {
                        Some(fixed) => Some(fixed),
                        None => width,
                    };
                    Ev::word(w, u)
                }
                Truth::DynArray { element } => Ev::DynArray { element: var(element, side) },
                Truth::FixedArray { element, length } => Ev::FixedArray {
                    element: var(element, side),
                    length,
                },
                Truth::Mapping { key, value } => Ev::Mapping {
                    key:   var(key, side),
                    value: var(value, side),
                },
                _ => Ev::Any,
            };
            emitted[c].push(e.clone());
            judgements.push((var(c, side), e));
        }
    }
    // Only the outermost pair is declared equal.
    judgements.push((var(depth, 0), Ev::Equal { other: var(depth, 1) }));
    r.shuffle(&mut judgements);
    Generated {
        ev: EvidenceSet {
            n_vars: class_of.len(),
            judgements,
        },
        model: Model {
            class_of,
            truths,
            emitted,
        },
        target: None,
        injected: None,
        packed_classes: 0,
        pushed_words: 0,
        views: false,
    }
}

/// One packed word described by several *views*: the hidden truth is a word
/// of 2..6 adjacent sized fields; the evidence is one complete, fine listing
/// of the fields plus 1..3 further packed encodings over the same bits whose
/// spans are single fields or runs of adjacent fields - a partition of a
/// sub-range, or arbitrary runs that may overlap or coincide within one
/// encoding. All of it is compatible, so the holder must resolve to the fine
/// listing, a span over one field must end in that field's class, and a span
/// over a run of fields must resolve to the packed encoding of exactly those
/// fields (at offsets relative to the span) with the fields' classes as its
/// components.
pub fn generate_views(r: &mut Rng) -> Generated {
    use WordUse::*;
    let mut fields: Vec<(WordUse, usize)> = Vec::new();
    let mut total = 0usize;
    let wanted = 2 + r.usize_below(5);
    while fields.len() < wanted {
        let usage = *r.pick(&[Bytes, Numeric, UnsignedNumeric, SignedNumeric, UnsignedNumeric, Bool, Address, Selector]);
        let width = usage.size().unwrap_or(8 * (1 + r.usize_below(10)));
        if total + width > 256 {
            if fields.len() >= 2 {
                break;
            }
            continue;
        }
        fields.push((usage, width));
        total += width;
    }
    let n = fields.len();
    let mut offsets = Vec::new();
    let mut at = 0usize;
    for (_, w) in &fields {
        offsets.push(at);
        at += w;
    }
    let mut truths: Vec<Truth> = fields
        .iter()
        .map(|(u, w)| Truth::Word {
            width: Some(*w),
            usage: *u,
        })
        .collect();
    let mut class_of: Vec<usize> = (0..n).collect();
    let mut emitted: Vec<Vec<Ev>> = vec![Vec::new(); n];
    let mut judgements: Vec<(usize, Ev)> = Vec::new();
    for (i, (u, w)) in fields.iter().enumerate() {
        let e = Ev::word(Some(*w), *u);
        emitted[i].push(e.clone());
        judgements.push((i, e));
    }
    // The holder class comes last; its variables are allocated now so that
    // the views can be stated about any of them.
    let n_holders = 1 + r.usize_below(3);
    let holder_vars: Vec<usize> = (0..n_holders).map(|k| n + k).collect();
    // (class index fixed up once the group classes are known)
    for _ in 0..n_holders {
        class_of.push(usize::MAX);
    }
    // A span over fields lo..hi: a variable of the field's class (tied to it
    // by nothing but the merge) or a variable of a new class whose truth is
    // the packed encoding of those fields.
    let mut span_for = |r: &mut Rng, lo: usize, hi: usize, truths: &mut Vec<Truth>, class_of: &mut Vec<usize>, emitted: &mut Vec<Vec<Ev>>, judgements: &mut Vec<(usize, Ev)>| -> (usize, usize, usize) {
        let size: usize = fields[lo..hi].iter().map(|f| f.1).sum();
        let v = class_of.len();
        if hi - lo == 1 {
            class_of.push(lo);
            if r.chance(1, 3) {
                // a compatible weakening stated about this variable
                let (u, w) = fields[lo];
                let weaker = *r.pick(&below(u));
                let e = Ev::word(if weaker.size().map_or(true, |s| s == w) { Some(w) } else { None }, weaker);
                emitted[lo].push(e.clone());
                judgements.push((v, e));
            }
        } else {
            let rel: Vec<(usize, usize, usize)> = (lo..hi).map(|k| (k, offsets[k] - offsets[lo], fields[k].1)).collect();
            truths.push(Truth::Packed { spans: rel.clone() });
            emitted.push(vec![Ev::Packed {
                spans:     rel,
                is_struct: false,
            }]);
            class_of.push(truths.len() - 1 + 0);
        }
        (v, offsets[lo], size)
    };
    let mut views: Vec<Ev> = Vec::new();
    // the fine listing
    let mut fine: Vec<(usize, usize, usize)> = (0..n).map(|k| (k, offsets[k], fields[k].1)).collect();
    if r.chance(1, 2) {
        r.shuffle(&mut fine);
    }
    let any_struct = r.chance(1, 6);
    views.push(Ev::Packed {
        spans:     fine,
        is_struct: any_struct && r.chance(1, 2),
    });
    let extra = 1 + r.usize_below(3);
    let mut overlapping_views = 0usize;
    for _ in 0..extra {
        let mut spans: Vec<(usize, usize, usize)> = Vec::new();
        if r.chance(1, 2) {
            // a partition of a sub-range into runs
            let lo = r.usize_below(n);
            let hi = lo + 1 + r.usize_below(n - lo);
            let mut at = lo;
            while at < hi {
                let end = at + 1 + r.usize_below(hi - at);
                spans.push(span_for(r, at, end, &mut truths, &mut class_of, &mut emitted, &mut judgements));
                at = end;
            }
        } else {
            // 2..3 arbitrary runs: they may overlap or coincide
            overlapping_views += 1;
            for _ in 0..2 + r.usize_below(2) {
                let lo = r.usize_below(n);
                let hi = lo + 1 + r.usize_below(n - lo);
                spans.push(span_for(r, lo, hi, &mut truths, &mut class_of, &mut emitted, &mut judgements));
            }
        }
        if r.chance(1, 2) {
            r.shuffle(&mut spans);
        }
        views.push(Ev::Packed {
            spans,
            is_struct: any_struct && r.chance(1, 2),
        });
    }
    drop(span_for);
    // Group classes were appended after the fields; the holder class is last.
    let holder_class = truths.len();
    truths.push(Truth::Packed {
        spans: (0..n).map(|k| (k, offsets[k], fields[k].1)).collect(),
    });
    emitted.push(Vec::new());
    for v in &holder_vars {
        class_of[*v] = holder_class;
    }
    for i in 1..n_holders {
        let j = r.usize_below(i);
        judgements.push((holder_vars[i], Ev::Equal { other: holder_vars[j] }));
    }
    for view in views {
        emitted[holder_class].push(view.clone());
        judgements.push((*r.pick(&holder_vars), view));
    }
    r.shuffle(&mut judgements);
    let packed_classes = truths.iter().filter(|t| matches!(t, Truth::Packed { .. })).count();
    Generated {
        ev: EvidenceSet {
            n_vars: class_of.len(),
            judgements,
        },
        model: Model {
            class_of,
            truths,
            emitted,
        },
        target: None,
        injected: None,
        packed_classes,
        pushed_words: overlapping_views,
        views: true,
    }
}

fn rep_of(model: &Model, c: usize) -> usize {
    model.class_of.iter().position(|x| *x == c).unwrap()
}

/// Classes reachable from `c` through components (c included).
fn downstream(model: &Model, c: usize, out: &mut BTreeSet<usize>) {
    if !out.insert(c) {
        return;
    }
    match &model.truths[c] {
        Truth::Mapping { key, value } => {
            downstream(model, *key, out);
            downstream(model, *value, out);
        }
        Truth::DynArray { element } | Truth::FixedArray { element, .. } => downstream(model, *element, out),
        Truth::Packed { spans } => {
            for s in spans {
                downstream(model, s.0, out);
            }
        }
        _ => {}
    }
}

fn expected_kind(model: &Model, c: usize) -> String {
    let ev: Vec<&Ev> = model.emitted[c].iter().filter(|e| !matches!(e, Ev::Any)).collect();
    if ev.is_empty() {
        return "Any".into();
    }
    match &model.truths[c] {
        Truth::Word { .. } => {
            let mut width = None;
            let mut usage = WordUse::Bytes;
            for e in &ev {
                if let Ev::Word { width: w, usage: u } = e {
                    if w.is_some() {
                        width = *w;
                    }
                    usage = join(usage, evidence::USAGES[*u as usize]);
                }
            }
            match width {
                Some(w) => format!("Word({},{w})", usage_name(usage)),
                None => format!("Word({},?)", usage_name(usage)),
            }
        }
        Truth::DynBytes => "DynBytes".into(),
        Truth::Mapping { .. } => "Mapping".into(),
        Truth::DynArray { .. } => "DynArray".into(),
        Truth::FixedArray { length, .. } => format!("FixedArray[{}]", evidence::real_length(*length)),
        Truth::Packed { spans } => {
            let is_struct = model.emitted[c].iter().any(|e| matches!(e, Ev::Packed { is_struct: true, .. }));
            format!(
                "{}[{}]",
                if is_struct { "Struct" } else { "Packed" },
                spans.iter().map(|(_, o, w)| format!("{o}+{w}")).collect::<Vec<_>>().join(",")
            )
        }
    }
}

/// Kind of a resolved expression with packed spans listed lowest-offset-first
/// (a single packed judgement is kept as it was listed).
fn kind_sorted(e: &storage_layout_extractor::tc::expression::TypeExpression) -> String {
    if let TE::Packed { types, is_struct } = e {
        let mut t = types.clone();
        t.sort_by_key(|s| (s.offset, s.size));
        return evidence::te_kind(&TE::Packed {
            types:     t,
            is_struct: *is_struct,
        });
    }
    evidence::te_kind(e)
}

/// A packed encoding with every span whose variable itself resolved to a
/// packed encoding replaced by that encoding's spans (shifted to the span's
/// offset), recursively. Packed encodings that meet in stages describe a run
/// of fields as a span whose own type lists the fields: the same information,
/// one level down. Everything else is returned unchanged.
fn flattened(o: &UnifyOutcome, e: &storage_layout_extractor::tc::expression::TypeExpression, depth: usize) -> storage_layout_extractor::tc::expression::TypeExpression {
    use storage_layout_extractor::tc::expression::Span;
    let TE::Packed { types, is_struct } = e else {
        return e.clone();
    };
    let mut out: Vec<Span> = Vec::new();
    for s in types {
        let inner = if depth < 6 && evidence::tv_index(s.typ) < o.data.len() {
            o.resolved(evidence::tv_index(s.typ)).ok()
        } else {
            None
        };
        match inner {
            Some(inner @ TE::Packed { .. }) => {
                let TE::Packed { types: sub, .. } = flattened(o, &inner, depth + 1) else {
                    unreachable!()
                };
                if sub.is_empty() {
                    out.push(s.clone());
                }
                for t in sub {
                    out.push(Span::new(t.typ, s.offset + t.offset, t.size));
                }
            }
            _ => out.push(s.clone()),
        }
    }
    TE::Packed {
        types:     out,
        is_struct: *is_struct,
    }
}

/// Compares the unifier's result with the model. Returns (signature, detail).
pub fn compare(g: &Generated, o: &UnifyOutcome) -> Option<(String, Value)> {
    if let Some(p) = &o.panic {
        return Some((format!("unify-{}", p.signature), json!({"message": p.message})));
    }
    if o.budget_exhausted {
        return Some(("nontermination".into(), json!({"polls": o.polls})));
    }
    if let Some(e) = &o.error {
        return Some((format!("unify-error:{e}"), json!({})));
    }
    let model = &g.model;
    let n_classes = model.truths.len();
    let mut skip: BTreeSet<usize> = BTreeSet::new();
    if let Some(t) = g.target {
        downstream(model, t, &mut skip);
        // The contradicted class itself must be a conflict, for every one of
        // its variables.
        for (v, c) in model.class_of.iter().enumerate() {
            if *c == t {
                match o.resolved(v) {
                    Ok(TE::Conflict { .. }) => {}
                    Ok(other) => {
                        let mut kinds: Vec<String> = model.emitted[t].iter().map(erase).collect();
                        kinds.sort();
                        kinds.dedup();
                        return Some((
                            format!("contradiction-resolved-silently:[{}] + {} -> {}", kinds.join(", "), erase_str(g.injected.as_deref().unwrap_or("?")), evidence::te_kind(&other)),
                            json!({"variable": v, "class": t, "emitted": model.emitted[t].iter().map(Ev::kind).collect::<Vec<_>>(), "injected": g.injected, "resolved": evidence::te_kind(&other)}),
                        ));
                    }
                    Err(why) => return Some((format!("unresolved:{why}"), json!({"variable": v}))),
                }
            }
        }
    }
    for c in 0..n_classes {
        if skip.contains(&c) {
            continue;
        }
        let rep = rep_of(model, c);
        let expected = expected_kind(model, c);
        for (v, cv) in model.class_of.iter().enumerate() {
            if *cv != c {
                continue;
            }
            if !o.same_class(v, rep) {
                return Some(("equated-variables-in-different-classes".into(), json!({"variable": v, "representative": rep, "model_class": c})));
            }
            let resolved = match o.resolved(v) {
                Ok(r) => r,
                Err(why) => return Some((format!("unresolved:{why}"), json!({"variable": v}))),
            };
            // (only the views family states evidence that can come out one
            // level down; everywhere else the resolved type is taken as is)
            let resolved = if g.views { flattened(o, &resolved, 0) } else { resolved };
            let got = kind_sorted(&resolved);
            if got != expected {
                let mut kinds: Vec<String> = model.emitted[c].iter().map(erase).collect();
                kinds.sort();
                kinds.dedup();
                let what = if matches!(resolved, TE::Conflict { .. }) { "compatible-evidence-conflicted" } else { "not-the-join" };
                return Some((
                    format!("{what}:[{}] expected {expected} got {got}", kinds.join(", ")),
                    json!({"variable": v, "model_class": c, "emitted": model.emitted[c].iter().map(Ev::kind).collect::<Vec<_>>(), "expected": expected, "got": got, "contradiction_elsewhere": g.target}),
                ));
            }
            // Structure: components in the model's classes.
            let comp_ok = match (&resolved, &model.truths[c]) {
                (TE::Mapping { key, value }, Truth::Mapping { key: mk, value: mv }) => {
                    (skip.contains(mk) || o.same_class(evidence::tv_index(*key), rep_of(model, *mk)))
                        && (skip.contains(mv) || o.same_class(evidence::tv_index(*value), rep_of(model, *mv)))
                }
                (TE::DynamicArray { element }, Truth::DynArray { element: me }) | (TE::FixedArray { element, .. }, Truth::FixedArray { element: me, .. }) => {
                    skip.contains(me) || o.same_class(evidence::tv_index(*element), rep_of(model, *me))
                }
                (TE::Packed { types, .. }, Truth::Packed { spans }) => {
                    // match spans by offset, whatever order they are listed in
                    types.len() == spans.len()
                        && spans.iter().all(|(mk, off, w)| {
                            types.iter().any(|t| {
                                t.offset == *off && t.size == *w && (skip.contains(mk) || o.same_class(evidence::tv_index(t.typ), rep_of(model, *mk)))
                            })
                        })
                }
                _ => true,
            };
            if !comp_ok {
                return Some((
                    format!("components-not-in-model-class:{expected}"),
                    json!({"variable": v, "model_class": c, "resolved": got}),
                ));
            }
        }
    }
    None
}

fn erase(e: &Ev) -> String {
    erase_str(&e.kind())
}

fn erase_str(k: &str) -> String {
    // Drop variable names: "Mapping(v3,v4)" -> "Mapping".
    for head in ["Mapping", "DynArray"] {
        if k.starts_with(head) {
            return head.to_string();
        }
    }
    if k.starts_with("FixedArray") {
        return format!("FixedArray{}", &k[k.find('[').unwrap_or(k.len())..]);
    }
    if k.starts_with("Packed[") || k.starts_with("Struct[") {
        // "Packed[v3@0+160,v4@160+8]" -> "Packed[0+160,160+8]"
        let head = &k[..7];
        let body: Vec<String> = k[7..k.len() - 1].split(',').map(|s| s.split('@').nth(1).unwrap_or(s).to_string()).collect();
        return format!("{head}{}]", body.join(","));
    }
    k.to_string()
}

pub fn schedules(seed: u64) -> Vec<Sched> {
    vec![
        Sched::natural(0),
        Sched::natural(derive(seed, 1)),
        Sched::natural(derive(seed, 2)),
        Sched::adversarial(1, 1000, MENU_REVERSE),
        Sched::adversarial(2, 1000, MENU_KIND_ASC),
        Sched::adversarial(3, 1000, MENU_KIND_DESC),
        Sched::adversarial(4, 1000, MENU_SHUFFLE),
        Sched::adversarial(derive(seed, 3), 500, MENU_ALL),
    ]
}

/// The resolved types as a client of the staged interface reads them: the
/// layout `TypeChecker::unify` returns for three storage slots equated with
/// the first three variables. Evidence delivered in two stages, with the
/// layout asked for in between, must end with the layout that the same
/// evidence gives when the layout is asked for once.
fn stale_layout(ev: &EvidenceSet, sched: &Sched, res: &mut CaseResult) -> Option<(String, Value)> {
    let run = |mode: Delivery| {
        run_unify(
            ev,
            sched,
            &UnifyOpts {
                mode,
                with_slots: true,
                ..UnifyOpts::default()
            },
        )
    };
    let once = run(Delivery::ThroughTypeChecker);
    let staged = run(Delivery::StagedThroughTypeChecker);
    res.runs += 2;
    res.steps += once.polls + staged.polls;
    res.fault("layout_read_between_two_deliveries");
    if once.panic.is_some() || staged.panic.is_some() || once.budget_exhausted || staged.budget_exhausted {
        return None;
    }
    if once.layout == staged.layout {
        return None;
    }
    let show = |l: &Option<storage_layout_extractor::StorageLayout>| match l {
        Some(l) => l.slots().iter().map(|s| format!("{:?}+{}:{}", s.index, s.offset, serde_json::to_string(&s.typ).unwrap_or_default())).collect::<Vec<_>>(),
        None => vec!["no layout".to_string()],
    };
    // The first entry that differs names the violation.
    let (a, b) = (show(&once.layout), show(&staged.layout));
    let first = a.iter().zip(b.iter()).find(|(x, y)| x != y).map(|(x, y)| format!("{} | {}", shorten(x), shorten(y))).unwrap_or_else(|| format!("{} entries | {} entries", a.len(), b.len()));
    Some((format!("layout-differs-when-read-in-between:{first}"), json!({"asked_once": a, "asked_twice": b})))
}

fn shorten(s: &str) -> String {
    s.chars().take(60).collect()
}

impl Check for C15Check {
    fn info(&self) -> CheckInfo {
        CheckInfo {
            id: "C15",
            level: "exploration",
            rule: "case = one hidden ground-truth typing over 2..10 classes (words of every usage and widths {?,8,32,64,128,160,256}, dynamic bytes, mappings, dynamic and fixed arrays, packed words of one or two sized fields, nesting <= 3) with 1..3 variables per class; compatible sets emit, per class, 1..5 weakenings of the true type (usage at or below it in the documented order, width kept or dropped, Any, the same constructor over existing or fresh-but-equated component variables) plus a spanning tree of equalities; contradictory sets (every second case) add exactly one judgement from the property's list to one class (a different known width, an incompatible usage, a mapping against an array or a sized word, a fixed array of a different 256-bit length); 1 in 16 sets is instead one packed word of 2..6 adjacent sized fields described by several views (a complete fine listing plus 1..3 packed encodings whose spans are single fields or runs of adjacent fields: a partition of a sub-range, or 2..3 runs that may overlap or coincide), compared after flattening spans whose own type resolved to a packed encoding; 1 in 32 sets is instead a type nested 12..61 levels deep described twice with different variables, only the outermost pair declared equal (one level is resolved per round of the unifier); 1 array or mapping class in 24 sets carries 260..460 pieces (a third of those 1 050..1 350, all on one variable), three components in four fresh variables and the rest shared between pieces, half of the fresh ones tied only by the constructor merge in compatible sets; fixed-array lengths include 0, 1 and 2^200+3; dynamic-bytes classes are also described by string-header packed encodings; each set is unified under 8 schedules rotating through nine equivalent delivery modes (plain, state used twice, one-sided equalities, through TypeChecker::unify, staged with a unification in between through the free function or the checker, infer_many, cloned state) and compared with the reference model; in the staged-through-the-checker mode the layout returned for three slots equated with the first three variables must equal the layout of the same evidence read once. evaluations = unifier runs; non-trivial = the run folded at least one class with >= 2 pieces; distinct = distinct (set, fold-order digest), counted with a hash set",
            assumptions: &[
                "reference model: congruence closure over declared equalities + the word lattice documented at WordUse::merge (bytes below everything; numeric below unsigned, signed, address; unsigned below address; bool, selector, function only above bytes); known width beats unknown",
                "dynamic array vs word and dynamic bytes vs word are not injected as contradictions: the code treats them as compatible on purpose and the property does not list them",
                "in a contradictory set only the contradicted class (must be a conflict) and the classes not reachable from it through components (must equal the model) are judged",
            ],
            components: json!({"real": ["TypeCheckerState (register/infer)", "unification::unify", "merge", "WordUse::merge", "DisjointSet forest"], "stubbed": ["hash seeding and iteration order (cfg hook)", "value identifiers (cfg hook)", "watchdog -> step budget"]}),
        }
    }

    fn cases(&self, tier: Tier) -> u64 {
        match tier {
            Tier::Quick => 30_000,
            Tier::Thorough => 800_000,
        }
    }

    fn run_case(&self, idx: u64, seed: u64, _tier: Tier) -> CaseResult {
        let mut res = CaseResult::default();
        let mut r = Rng::new(seed);
        let contradictory = idx % 2 == 1;
        let deep = !contradictory && idx % 32 == 0;
        let views = !contradictory && idx % 16 == 2;
        let g = if deep {
            generate_deep(&mut r)
        } else if views {
            generate_views(&mut r)
        } else {
            generate(&mut r, contradictory)
        };
        if views {
            res.probe("packed_word_described_by_several_views");
            if g.pushed_words > 0 {
                res.probe("views_with_overlapping_or_coinciding_spans");
            }
        }
        if deep {
            res.probe("deeply_nested_type_described_twice");
        }
        if contradictory {
            if g.target.is_some() {
                res.fault("contradictory_judgement_injected");
            } else {
                res.probe("no_class_could_be_contradicted");
            }
        } else {
            res.probe("compatible_sets");
        }
        if g.packed_classes > 0 {
            res.probe("sets_with_a_packed_class");
        }
        if g.pushed_words > 0 && !views {
            res.probe("sets_with_a_word_pushed_onto_a_packed_field");
        }
        if g.injected.as_deref().map_or(false, |k| k.starts_with("FixedArray")) {
            res.fault("contradictory_array_length_injected");
        }
        for (six, sched) in schedules(seed).into_iter().enumerate() {
            let mode = Delivery::for_schedule(six, seed);
            let o = run_unify(
                &g.ev,
                &sched,
                &UnifyOpts {
                    mode,
                    ..UnifyOpts::default()
                },
            );
            res.runs += 1;
            res.steps += o.polls;
            if o.record.folds_multi > 0 {
                res.fold_orders.push(o.record.fold_digest);
                let mut h = std::collections::hash_map::DefaultHasher::new();
                std::hash::Hash::hash(&(seed, o.record.fold_digest), &mut h);
                res.nontrivial.push(std::hash::Hasher::finish(&h));
            }
            if o.record.permuted_events > 0 {
                res.fault("schedule_permutation_applied");
            }
            if o.record.unify_rounds > 2 {
                res.probe("more_than_two_rounds");
            }
            let verdict = compare(&g, &o).or_else(|| if mode == Delivery::StagedThroughTypeChecker { stale_layout(&g.ev, &sched, &mut res) } else { None });
            if let Some((sig, detail)) = verdict {
                res.violations.push(Violation {
                    property:  "C15".into(),
                    signature: sig,
                    detail:    json!({"case": idx, "seed": seed, "contradictory": contradictory, "schedule": sched.label(), "explanation": detail, "judgements": g.ev.judgements.iter().map(|(v, e)| format!("v{v}: {}", e.kind())).collect::<Vec<_>>()}),
                    replay:    json!({"check": "C15", "kind": "generated", "seed": seed, "contradictory": contradictory, "deep": deep, "views": views, "sched": sched, "mode": mode}),
                });
                break;
            }
        }
        if idx < 4 {
            res.sample = Some(json!({"case": idx, "seed": seed, "contradictory": contradictory, "injected": g.injected, "n_vars": g.ev.n_vars, "judgements": g.ev.judgements.iter().map(|(v, e)| format!("v{v}: {}", e.kind())).collect::<Vec<_>>()}));
        }
        res
    }

    fn replay(&self, payload: &Value) -> Result<Option<Violation>, String> {
        // The judgement set and its model are a pure function of the seed.
        let seed = payload["seed"].as_u64().ok_or("no seed")?;
        let contradictory = payload["contradictory"].as_bool().unwrap_or(false);
        let sched: Sched = serde_json::from_value(payload["sched"].clone()).map_err(|e| e.to_string())?;
        let mut r = Rng::new(seed);
        let g = if payload["deep"].as_bool() == Some(true) {
            generate_deep(&mut r)
        } else if payload["views"].as_bool() == Some(true) {
            generate_views(&mut r)
        } else {
            generate(&mut r, contradictory)
        };
        let mode: Delivery = serde_json::from_value(payload["mode"].clone()).unwrap_or(Delivery::Plain);
        let o = run_unify(
            &g.ev,
            &sched,
            &UnifyOpts {
                mode,
                ..UnifyOpts::default()
            },
        );
        if std::env::var_os("SLX_DEBUG").is_some() {
            eprintln!(
                "debug: error={:?} budget_exhausted={} polls={} rounds={} n_vars={} n_after={}",
                o.error, o.budget_exhausted, o.polls, o.record.unify_rounds, g.ev.n_vars, o.n_after
            );
            let mut by_real: std::collections::BTreeMap<(usize, usize), Vec<usize>> = Default::default();
            for (v, c) in g.model.class_of.iter().enumerate() {
                by_real.entry((*c, o.class[v])).or_default().push(v);
            }
            for ((c, real), vs) in &by_real {
                eprintln!("debug: model class {c} real class {real}: {} vars, first {:?}; data {:?}", vs.len(), &vs[..vs.len().min(6)], o.data[*real].as_ref().map(|d| d.iter().map(evidence::te_kind).collect::<Vec<_>>()));
            }
        }
        let mut scratch = CaseResult::default();
        let verdict = compare(&g, &o).or_else(|| if mode == Delivery::StagedThroughTypeChecker { stale_layout(&g.ev, &sched, &mut scratch) } else { None });
        Ok(verdict.map(|(sig, detail)| Violation {
            property:  "C15".into(),
            signature: sig,
            detail:    json!({"explanation": detail, "judgements": g.ev.judgements.iter().map(|(v, e)| format!("v{v}: {}", e.kind())).collect::<Vec<_>>()}),
            replay:    payload.clone(),
        }))
    }
}
