//! C13 – the watchdog can stop the analysis at any poll, is transparent when
//! it never says stop, and is polled as often as promised.
//!
//! Fault enumeration over crash points: for every poll index k of a run the
//! simulated supervisor cancels from poll k on.

use std::collections::BTreeSet;

use serde_json::{json, Value};
use storage_layout_extractor::verif::{LoopInstance, SITE_NAMES};

use crate::{
    framework::{CaseResult, Check, CheckInfo, Tier, Violation},
    rng::{derive, Rng},
    sim::{self, Api, Class, Knobs, Outcome, RunOpts, Scenario, Sched, WdKind, WdPlan},
    workload::{self, Corpus},
};

pub struct C13Check;
pub static C13: C13Check = C13Check;

const POLL_INTERVALS: [usize; 6] = [1, 2, 3, 7, 100, 1000];
/// Enumerate every k up to this many polls; stratify beyond.
const EXHAUSTIVE_LIMIT: u64 = 400;
const STRATIFIED_SAMPLES: usize = 200;
/// Runs whose baseline needs more polls than this (at p = 1) are skipped.
const MAX_BASELINE_POLLS: u64 = 6_000;

thread_local! {
    static CORPUS: Corpus = Corpus::load("/verif/corpus");
}

fn gen_program(r: &mut Rng, idx: u64) -> (Vec<u8>, &'static str) {
    // The first cases are fixed small corpus contracts so that real compiler
    // output is always part of the enumeration.
    let fixed = CORPUS.with(|c| {
        let small = c.small(400);
        if (idx as usize) < small.len().min(3) {
            Some(small[idx as usize].1.clone())
        } else {
            None
        }
    });
    if let Some(code) = fixed {
        return (code, "corpus");
    }
    match r.below(12) {
        10 | 11 => (workload::gen_growth(r), "growth"),
        0..=4 => (workload::gen_copy(r), "copy"),
        5..=7 => (workload::gen_storage(r), "storage"),
        8 => (workload::gen_cfg(r), "cfg"),
        _ => (workload::gen_stack(r, false), "stack"),
    }
}

fn scenario(code: &[u8], knobs: &Knobs, sched: &Sched, wd: WdPlan, api: Api) -> Scenario {
    Scenario {
        code: code.to_vec(),
        knobs: knobs.clone(),
        sched: sched.clone(),
        wd,
        api,
        poisoned_table: false,
    }
}

/// What must be equal between a monitored run that was never told to stop
/// and the unmonitored run.
fn transparent_digest(o: &Outcome) -> (u64, Option<String>, Vec<String>, u64, u64, u64) {
    (
        o.result_digest(),
        o.layout_json.clone(),
        o.errors.iter().map(|e| format!("{}::{}@{}", e.family, e.kind, e.location)).collect(),
        o.record.trace_digest,
        o.record.fold_digest,
        o.record.ids_issued,
    )
}

/// Oracle 4 on one loop instance of a run that was not cancelled.
fn poll_bounds_ok(l: &LoopInstance, p: u64) -> bool {
    let work = l.ticks.saturating_sub(l.skips);
    let lo = work / p;
    let hi = (work + p - 1) / p + l.skips;
    l.polls >= lo && l.polls <= hi
}

fn violation(oracle: &str, what: String, sc: &Scenario, extra: Value) -> Violation {
    let site = extra["site"].as_str().unwrap_or("?").to_string();
    Violation {
        property:  "C13".into(),
        signature: format!("{oracle}:{site}:{}", what),
        detail:    json!({"oracle": oracle, "what": what, "program": hex::encode(&sc.code), "poll_every": sc.wd.poll_every, "stop_at": sc.wd.stop_at, "watchdog": format!("{:?}", sc.wd.kind), "api": format!("{:?}", sc.api), "permissive": sc.knobs.permissive, "schedule": sc.sched.label(), "extra": extra}),
        replay:    json!({"check": "C13", "kind": "single", "oracle": oracle, "scenario": sc}),
    }
}

/// Evaluates the baseline oracles (3 and 4) for one (program, p, mode).
/// Returns the baseline outcome.
fn baseline_oracles(code: &[u8], knobs: &Knobs, sched: &Sched, p: usize, api: &Api, res: &mut CaseResult, out_v: &mut Vec<Violation>) -> Outcome {
    let mut plan = WdPlan::never(p);
    plan.log_sites = true;
    let sc = scenario(code, knobs, sched, plan, api.clone());
    let base = sim::run(&sc, &RunOpts::default());
    res.runs += 1;
    res.steps += base.record.site_ticks.iter().sum::<u64>();
    // Oracle 3: transparent.
    let lazy_sc = scenario(code, knobs, sched, WdPlan::lazy(), api.clone());
    let lazy = sim::run(&lazy_sc, &RunOpts::default());
    res.runs += 1;
    if transparent_digest(&base) != transparent_digest(&lazy) {
        out_v.push(violation(
            "transparent",
            "monitored-but-never-stopped run differs from the unmonitored run".into(),
            &sc,
            json!({"site": "run", "monitored": base.summary(), "unmonitored": lazy.summary()}),
        ));
    }
    if base.first_true.is_some() {
        out_v.push(violation("transparent", "never-stopping watchdog reported a stop".into(), &sc, json!({"site": "run"})));
    }
    // Oracle 4: polled as promised, per loop instance.
    for l in &base.record.loops {
        res.probe(&format!("loop_instances_{}", SITE_NAMES[l.site]));
        if l.ticks > 0 {
            res.probe(&format!("loop_with_work_{}", SITE_NAMES[l.site]));
        }
        if !poll_bounds_ok(l, p as u64) {
            out_v.push(violation(
                "poll-count",
                format!("loop polled {} than promised", if l.polls < (l.ticks.saturating_sub(l.skips)) / p as u64 { "less often" } else { "more often" }),
                &sc,
                json!({"site": SITE_NAMES[l.site], "iterations": l.ticks, "skipped": l.skips, "polls": l.polls, "poll_every": p}),
            ));
            break;
        }
    }
    if base.record.polls_unattributed > 0 {
        // A poll that no loop tick preceded: a polling site the hooks do not
        // know. Not a property violation; the machinery needs a new marker.
        res.probe_n("polls_not_attributed_to_a_loop", base.record.polls_unattributed);
    }
    base
}

fn ks_for(base: &Outcome, seed: u64) -> (Vec<u64>, bool) {
    let t = base.polls;
    if t <= EXHAUSTIVE_LIMIT {
        // Every poll index, plus one beyond the end (never fires).
        return ((0..=t).collect(), true);
    }
    let mut ks: BTreeSet<u64> = BTreeSet::new();
    for k in [0, 1, 2, t.saturating_sub(2), t.saturating_sub(1), t] {
        ks.insert(k);
    }
    // Stage / loop boundaries from the baseline's poll-site log.
    let sites = &base.poll_sites;
    for i in 1..sites.len() {
        if sites[i] != sites[i - 1] {
            ks.insert(i as u64 - 1);
            ks.insert(i as u64);
        }
        if ks.len() >= STRATIFIED_SAMPLES * 3 / 4 {
            break;
        }
    }
    let mut r = Rng::new(seed);
    while ks.len() < STRATIFIED_SAMPLES {
        ks.insert(r.below(t + 1));
    }
    (ks.into_iter().collect(), false)
}

/// Oracles 1 and 2 for one cancelled run.
fn cancel_oracles(sc: &Scenario, base: &Outcome, out: &Outcome) -> Option<Violation> {
    let p = sc.wd.poll_every as u64;
    let site = out.first_true_site.map_or("none", |s| SITE_NAMES[s]);
    match out.first_true {
        Some(at) => {
            // Oracle 1: never a layout (or a clean completion) from partial
            // work, and the error says why.
            if out.class == Class::Ok {
                return Some(violation(
                    "stop-ignored",
                    "watchdog said stop but the analysis returned success".into(),
                    sc,
                    json!({"site": site, "first_true_at_poll": at, "result": out.summary()}),
                ));
            }
            if out.class == Class::Panic {
                return Some(violation("stop-panic", "analysis panicked after the watchdog said stop".into(), sc, json!({"site": site, "result": out.summary()})));
            }
            if !out.stopped_by_watchdog() {
                return Some(violation(
                    "stop-unreported",
                    "watchdog said stop but the error does not contain StoppedByWatchdog".into(),
                    sc,
                    json!({"site": site, "first_true_at_poll": at, "result": out.summary()}),
                ));
            }
            // Oracle 2: prompt.
            if out.polls_after_true > p {
                return Some(violation(
                    "stop-late",
                    "more than poll_every further polls after the first stop".into(),
                    sc,
                    json!({"site": site, "first_true_at_poll": at, "further_polls": out.polls_after_true, "poll_every": p}),
                ));
            }
            None
        }
        None => {
            // The stop index was never reached: must equal the baseline.
            if transparent_digest(base) != transparent_digest(out) {
                return Some(violation(
                    "transparent",
                    "a watchdog that never got to say stop changed the result".into(),
                    sc,
                    json!({"site": "run", "baseline": base.summary(), "result": out.summary()}),
                ));
            }
            None
        }
    }
}

impl C13Check {
    fn explore(&self, code: &[u8], family: &str, seed: u64, idx: u64, tier: Tier, res: &mut CaseResult) {
        let sched = Sched::natural(derive(seed, 5));
        let mut violations: Vec<Violation> = Vec::new();
        // Which poll intervals get the full treatment for this program.
        let all_p = tier == Tier::Thorough || idx % 4 == 0;
        let intervals: Vec<usize> = if all_p {
            POLL_INTERVALS.to_vec()
        } else {
            vec![1, POLL_INTERVALS[1 + (idx as usize % 5)]]
        };
        for permissive in [false, true] {
            let mut knobs = Knobs::default();
            knobs.permissive = permissive;
            // Keep the VM small enough for exhaustive k; beyond that the
            // limits vary per program (a pure function of the case seed).
            let mut kr = Rng::new(derive(seed, 99));
            knobs.max_forks = 1 + kr.usize_below(8);
            knobs.max_iterations = 1 + kr.usize_below(4);
            knobs.mem_op_limit = *kr.pick(&[32usize, 33, 394, 394, 4096]);
            knobs.value_size_limit = *kr.pick(&[250usize, 250, 1000, 1000, 10, 3]);
            if kr.chance(1, 5) {
                knobs.gas_limit = kr.log_range(100, 5_000) as usize;
            }
            // Probe size at p = 1 first.
            let probe = sim::run(&scenario(code, &knobs, &sched, WdPlan::never(1), Api::OneCall), &RunOpts::default());
            res.runs += 1;
            if probe.polls > MAX_BASELINE_POLLS || probe.class == Class::Panic {
                res.probe("program_skipped_too_large_or_panicking");
                return;
            }
            for &p in &intervals {
                let api = match (idx + p as u64) % 4 {
                    0 => Api::Staged(4),
                    1 => Api::Phases,
                    _ => Api::OneCall,
                };
                let base = baseline_oracles(code, &knobs, &sched, p, &api, res, &mut violations);
                let (ks, exhaustive) = ks_for(&base, derive(seed, p as u64));
                if exhaustive {
                    res.probe("exhaustive_k_enumerations");
                } else {
                    res.probe("stratified_k_enumerations");
                }
                for (i, k) in ks.iter().enumerate() {
                    // Mostly the simulator's own watchdog; every fifth k goes
                    // through the library's FlagWatchdog driven by the
                    // simulated supervisor.
                    let kind = if i % 5 == 4 { WdKind::Flag } else { WdKind::Sim };
                    let mut plan = WdPlan::stop_at(p, *k);
                    plan.kind = kind.clone();
                    let sc = scenario(code, &knobs, &sched, plan, api.clone());
                    let out = sim::run(&sc, &RunOpts::default());
                    res.runs += 1;
                    res.steps += out.polls;
                    if out.first_true.is_some() {
                        let site = out.first_true_site.map_or("none", |s| SITE_NAMES[s]);
                        res.fault(&format!("stop_seen_in_{site}"));
                        if kind == WdKind::Flag {
                            res.fault("stop_via_flag_watchdog_supervisor");
                        }
                        let mut h = std::collections::hash_map::DefaultHasher::new();
                        std::hash::Hash::hash(&(code, p, permissive, *k), &mut h);
                        res.nontrivial.push(std::hash::Hasher::finish(&h));
                    } else {
                        res.probe("stop_index_beyond_last_poll");
                    }
                    if out.interval_seen != p {
                        // "polled as often as promised" starts with the
                        // shipped watchdog promising what it was asked for.
                        violations.push(violation(
                            "interval-not-honoured",
                            format!("a FlagWatchdog built with polling_every({p}) answers {} from poll_every()", out.interval_seen),
                            &sc,
                            json!({"site": "watchdog", "requested": p, "answered": out.interval_seen}),
                        ));
                        break;
                    }
                    if let Some(v) = cancel_oracles(&sc, &base, &out) {
                        violations.push(v);
                        break;
                    }
                }
                if !violations.is_empty() {
                    break;
                }
            }
            if !violations.is_empty() {
                break;
            }
        }
        res.probe(&format!("workload_{family}"));
        // Report one violation per oracle+site for this program.
        let mut seen = BTreeSet::new();
        for v in violations {
            if seen.insert(v.signature.clone()) {
                res.violations.push(v);
            }
        }
    }
}

impl Check for C13Check {
    fn info(&self) -> CheckInfo {
        CheckInfo {
            id: "C13",
            level: "fault_enumeration",
            rule: "case = one program (copy-heavy 42%, storage idioms 25%, value-growth chains 17%, control flow 8%, stack-aware 8%, first three cases fixed small corpus contracts) x {strict, permissive} x poll intervals from {1,2,3,7,100,1000} x API shape (analyze / staged / type-checker phases called one by one); for each: a baseline with a never-stopping counting watchdog, an unmonitored run, and one cancelled run per poll index k (every k in 0..=T when T <= 400, else 200 stratified k: ends, loop/stage boundaries, uniform rest); every fifth k is delivered through the real FlagWatchdog with a simulated supervisor that raises the flag once; a FlagWatchdog built with polling_every(p) must answer p from poll_every(). evaluations = simulated runs; non-trivial = the injected stop was actually observed by the analysis; distinct = distinct (program, poll_every, mode, k), counted with a hash set",
            assumptions: &[
                "the supervisor/analysis interaction is one Relaxed AtomicBool load per poll, so the set of distinguishable interleavings is exactly 'first poll index that reads true', which is what is enumerated",
                "loop iterations are counted by tick markers placed next to (not inside) the poll conditions (cfg hook H5)",
                "bounds accepted: at most poll_every further polls after the first stop; floor(work/p) <= polls <= ceil(work/p) + skipped iterations per loop instance",
                "VM limits kept small (1..8 forks per target, 1..4 iterations per opcode) to keep every-k enumeration tractable; copy-size limit, value-size limit and (1 in 5) a small gas limit vary per program",
            ],
            components: super::components(),
        }
    }

    fn cases(&self, tier: Tier) -> u64 {
        match tier {
            Tier::Quick => 640,
            Tier::Thorough => 12_000,
        }
    }

    fn exhaustive(&self, _tier: Tier) -> Option<String> {
        Some("crash points only: every poll index k in 0..=T for each (program, mode, poll_every) whose baseline makes T <= 400 polls (count in probes.exhaustive_k_enumerations); larger ones are stratified; programs are sampled".into())
    }

    fn run_case(&self, idx: u64, seed: u64, tier: Tier) -> CaseResult {
        let mut res = CaseResult::default();
        let mut r = Rng::new(seed);
        let (code, family) = gen_program(&mut r, idx);
        self.explore(&code, family, seed, idx, tier, &mut res);
        if idx < 4 {
            res.sample = Some(json!({"case": idx, "seed": seed, "workload": family, "program": hex::encode(&code), "runs": res.runs, "faults": res.faults}));
        }
        res
    }

    fn replay(&self, payload: &Value) -> Result<Option<Violation>, String> {
        let sc: Scenario = serde_json::from_value(payload["scenario"].clone()).map_err(|e| e.to_string())?;
        let oracle = payload["oracle"].as_str().unwrap_or("");
        let mut res = CaseResult::default();
        let mut vs = Vec::new();
        let base = baseline_oracles(&sc.code, &sc.knobs, &sc.sched, sc.wd.poll_every.max(1), &sc.api, &mut res, &mut vs);
        if oracle == "transparent" || oracle == "poll-count" {
            if let Some(v) = vs.into_iter().find(|v| v.signature.starts_with(oracle)) {
                return Ok(Some(v));
            }
            if sc.wd.stop_at.is_none() {
                return Ok(None);
            }
        }
        let out = sim::run(&sc, &RunOpts::default());
        if out.interval_seen != sc.wd.poll_every {
            return Ok(Some(violation(
                "interval-not-honoured",
                format!("a FlagWatchdog built with polling_every({}) answers {} from poll_every()", sc.wd.poll_every, out.interval_seen),
                &sc,
                json!({"site": "watchdog", "requested": sc.wd.poll_every, "answered": out.interval_seen}),
            )));
        }
        Ok(cancel_oracles(&sc, &base, &out))
    }
}
