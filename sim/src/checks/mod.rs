pub mod c01;
pub mod c02;
pub mod c03;
pub mod c13;
pub mod c14;
pub mod c15;
pub mod c16;
pub mod d00;

use serde_json::{json, Value};

use crate::framework::Check;

pub fn all() -> Vec<&'static dyn Check> {
    vec![&c01::C01, &c02::C02, &c03::C03, &c13::C13, &c14::C14, &c15::C15, &c16::C16, &d00::D00]
}

pub fn components() -> Value {
    json!({
        "real": [
            "disassembler", "symbolic VM and every opcode", "lifting passes (default list, shared slot-hash table)",
            "inference rules (default set)", "unifier", "layout builder", "LazyWatchdog", "FlagWatchdog (analysis side)"
        ],
        "stubbed": [
            "hash seeding: std RandomState -> keyed SipHash with simulator keys (cfg hook)",
            "iteration order of every HashMap/HashSet in the library -> scheduler decision per iteration event (cfg hook)",
            "value identifiers: Uuid::new_v4 -> per-run counter (cfg hook)",
            "supervising thread of FlagWatchdog -> discrete-event model (deadline in polls)",
            "watchdog -> SimWatchdog (counts polls, injects stop at poll k)"
        ]
    })
}
