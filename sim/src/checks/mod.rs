pub mod c02;

use serde_json::{json, Value};

use crate::framework::Check;

pub fn all() -> Vec<&'static dyn Check> {
    vec![&c02::C02]
}

pub fn components() -> Value {
    json!({
        "real": [
            "disassembler", "symbolic VM and every opcode", "lifting passes (default list, shared slot-hash table)",
            "inference rules (default set)", "unifier", "layout builder", "LazyWatchdog", "FlagWatchdog (analysis side)"
        ],
        "stubbed": [
            "hash seeding: std RandomState -> keyed SipHash with simulator keys (cfg hook)",
            "iteration order of every HashMap/HashSet in the library -> scheduler decision per iteration event (cfg hook)",
            "value identifiers: Uuid::new_v4 -> per-run counter (cfg hook)",
            "supervising thread of FlagWatchdog -> discrete-event model (deadline in polls)",
            "watchdog -> SimWatchdog (counts polls, injects stop at poll k)"
        ]
    })
}
