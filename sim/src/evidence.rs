//! Unifier-level scenarios: judgement sets over a handful of type variables,
//! delivered to the real `unification::unify` through the public state API.

use std::{
    panic::{self, AssertUnwindSafe},
    rc::Rc,
};

use ethnum::U256;
use serde::{Deserialize, Serialize};
use storage_layout_extractor as sle;
use sle::{
    data::vector_map::{FromUniqueIndex, ToUniqueIndex},
    tc::{
        expression::{Span, TypeExpression, WordUse, TE},
        state::{type_variable::TypeVariable, TypeCheckerState},
        unification,
    },
    verif,
    vm::value::{Provenance, RSV},
    watchdog::DynWatchdog,
};

use crate::sim::{self, hook_params, Sched, WdPlan};

pub const USAGES: [WordUse; 8] = [
    WordUse::Bytes,
    WordUse::Numeric,
    WordUse::UnsignedNumeric,
    WordUse::SignedNumeric,
    WordUse::Bool,
    WordUse::Address,
    WordUse::Selector,
    WordUse::Function,
];

pub fn usage_name(u: WordUse) -> &'static str {
    match u {
        WordUse::Bytes => "Bytes",
        WordUse::Numeric => "Numeric",
        WordUse::UnsignedNumeric => "Unsigned",
        WordUse::SignedNumeric => "Signed",
        WordUse::Bool => "Bool",
        WordUse::Address => "Address",
        WordUse::Selector => "Selector",
        WordUse::Function => "Function",
    }
}

/// One piece of evidence; variables are indices into the scenario's variable
/// list.
#[derive(Clone, Debug, Serialize, Deserialize, PartialEq, Eq, Hash, PartialOrd, Ord)]
pub enum Ev {
    Any,
    Bytes,
    Word { width: Option<usize>, usage: u8 },
    Mapping { key: usize, value: usize },
    DynArray { element: usize },
    FixedArray { element: usize, length: u64 },
    /// A fixed array whose length is `hi * 2^64 + lo`.
    FixedArrayBig { element: usize, hi: u64, lo: u64 },
    Packed { spans: Vec<(usize, usize, usize)>, is_struct: bool },
    /// A ready-made conflict (of two incompatible words).
    Conflict,
    Equal { other: usize },
}

impl Ev {
    pub fn word(width: Option<usize>, usage: WordUse) -> Ev {
        Ev::Word {
            width,
            usage: USAGES.iter().position(|u| *u == usage).unwrap() as u8,
        }
    }

    pub fn kind(&self) -> String {
        match self {
            Ev::Any => "Any".into(),
            Ev::Bytes => "DynBytes".into(),
            Ev::Word { width, usage } => match width {
                Some(w) => format!("Word({},{w})", usage_name(USAGES[*usage as usize])),
                None => format!("Word({},?)", usage_name(USAGES[*usage as usize])),
            },
            Ev::Mapping { key, value } => format!("Mapping(v{key},v{value})"),
            Ev::DynArray { element } => format!("DynArray(v{element})"),
            Ev::FixedArray { element, length } => format!("FixedArray(v{element})[{length}]"),
            Ev::FixedArrayBig { element, hi, lo } => format!("FixedArray(v{element})[{hi}*2^64+{lo}]"),
            Ev::Packed { spans, is_struct } => format!(
                "{}[{}]",
                if *is_struct { "Struct" } else { "Packed" },
                spans.iter().map(|(v, o, s)| format!("v{v}@{o}+{s}")).collect::<Vec<_>>().join(",")
            ),
            Ev::Conflict => "Conflict".into(),
            Ev::Equal { other } => format!("Equal(v{other})"),
        }
    }

    /// The variables this piece mentions.
    pub fn vars(&self) -> Vec<usize> {
        match self {
            Ev::Mapping { key, value } => vec![*key, *value],
            Ev::DynArray { element } | Ev::FixedArray { element, .. } | Ev::FixedArrayBig { element, .. } => vec![*element],
            Ev::Packed { spans, .. } => spans.iter().map(|s| s.0).collect(),
            Ev::Equal { other } => vec![*other],
            _ => vec![],
        }
    }

    /// The same piece with its variables renamed.
    pub fn rename(&self, f: &dyn Fn(usize) -> usize) -> Ev {
        match self {
            Ev::Mapping { key, value } => Ev::Mapping {
                key:   f(*key),
                value: f(*value),
            },
            Ev::DynArray { element } => Ev::DynArray { element: f(*element) },
            Ev::FixedArray { element, length } => Ev::FixedArray {
                element: f(*element),
                length:  *length,
            },
            Ev::FixedArrayBig { element, hi, lo } => Ev::FixedArrayBig {
                element: f(*element),
                hi:      *hi,
                lo:      *lo,
            },
            Ev::Packed { spans, is_struct } => Ev::Packed {
                spans:     spans.iter().map(|(v, o, s)| (f(*v), *o, *s)).collect(),
                is_struct: *is_struct,
            },
            Ev::Equal { other } => Ev::Equal { other: f(*other) },
            other => other.clone(),
        }
    }

    fn to_te(&self, vars: &[TypeVariable]) -> TypeExpression {
        match self {
            Ev::Any => TE::Any,
            Ev::Bytes => TE::Bytes,
            Ev::Word { width, usage } => TE::word(*width, USAGES[*usage as usize]),
            Ev::Mapping { key, value } => TE::mapping(vars[*key], vars[*value]),
            Ev::DynArray { element } => TE::dyn_array(vars[*element]),
            Ev::FixedArray { element, length } => TE::FixedArray {
                element: vars[*element],
                length:  real_length(*length),
            },
            Ev::FixedArrayBig { element, hi, lo } => TE::FixedArray {
                element: vars[*element],
                length:  (U256::from(*hi) << 64) + U256::from(*lo),
            },
            Ev::Packed { spans, is_struct } => TE::Packed {
                types:     spans.iter().map(|(v, o, s)| Span::new(vars[*v], *o, *s)).collect(),
                is_struct: *is_struct,
            },
            Ev::Conflict => TE::conflict(TE::word(Some(8), WordUse::Bool), TE::word(Some(160), WordUse::Address), "injected"),
            Ev::Equal { other } => TE::eq(vars[*other]),
        }
    }
}

#[derive(Clone, Debug, Serialize, Deserialize, PartialEq, Eq)]
pub struct EvidenceSet {
    pub n_vars:     usize,
    pub judgements: Vec<(usize, Ev)>,
}

/// What unification left behind, in harness terms.
#[derive(Clone, Debug)]
pub struct UnifyOutcome {
    pub panic:            Option<sim::PanicInfo>,
    pub error:            Option<String>,
    pub budget_exhausted: bool,
    pub polls:            u64,
    /// Number of type variables after unification (fresh ones included).
    pub n_after:          usize,
    /// Forest class (root index) of every variable.
    pub class:            Vec<usize>,
    /// Resolved data of every variable's class (`None`: no data entry).
    pub data:             Vec<Option<Vec<TypeExpression>>>,
    /// The layout `TypeChecker::unify` returned (through-the-checker
    /// deliveries only).
    pub layout:           Option<sle::StorageLayout>,
    pub record:           verif::Record,
}

impl UnifyOutcome {
    pub fn same_class(&self, a: usize, b: usize) -> bool {
        self.class[a] == self.class[b]
    }

    /// The single resolved expression of `v`'s class, as `type_of` reads it.
    pub fn resolved(&self, v: usize) -> Result<TypeExpression, String> {
        match &self.data[v] {
            None => Err("no data entry".into()),
            Some(d) if d.is_empty() => Ok(TE::Any),
            Some(d) if d.len() == 1 => Ok(d[0].clone()),
            Some(d) => Err(format!("{} expressions left", d.len())),
        }
    }
}

pub struct UnifyOpts {
    pub record_trace: bool,
    pub record_folds: bool,
    pub step_budget:  u64,
    /// How the judgement set is delivered through the public state API.
    pub mode:         Delivery,
    /// `Delivery::Staged`: how many judgements make up the first stage (the
    /// first half if not given).
    pub staged_at:    Option<usize>,
    /// Also register three constant-key storage slots, equated with the first
    /// three variables, so that the layout `TypeChecker::unify` returns has
    /// entries to compare.
    pub with_slots:   bool,
}

/// Equivalent ways of handing one judgement set to the unifier.
#[derive(Copy, Clone, Debug, PartialEq, Eq, Serialize, Deserialize)]
pub enum Delivery {
    /// `register` every variable, `infer` every judgement, `unify` once.
    Plain,
    /// The state is used twice: half of the variables are registered and the
    /// (still empty) state is unified once; the other half is then allocated
    /// with `allocate_ty_var` (as the mapping rule does), the judgements are
    /// recorded and the state is unified again.
    TwoPhase,
    /// Equalities are recorded on one side only, through `inferences_mut`
    /// (`infer` would mirror them).
    OneSidedEqualities,
    /// The judgements are recorded in the state of a `TypeChecker` and
    /// unification runs as that stage (`TypeChecker::unify`), the way the
    /// pipeline reaches it, instead of through the free function.
    ThroughTypeChecker,
    /// The first half of the judgements is recorded and unified, then the
    /// second half is recorded and the state is unified again (a client that
    /// refines a result as evidence arrives). Unification starts from the
    /// recorded evidence every time, so the outcome has to be that of `Plain`.
    Staged,
    /// As `Staged`, with the state living in a `TypeChecker` and both
    /// unifications run as that stage (`TypeChecker::unify`); the second half
    /// of the evidence is added through `state_mut()`, which is how a client
    /// of the staged interface adds evidence of its own.
    StagedThroughTypeChecker,
    /// Equalities are recorded with `infer_many([v], eq(w))` instead of
    /// `infer(v, eq(w))`.
    EqualitiesThroughInferMany,
    /// The evidence is recorded in one state object; a clone of it is unified
    /// and observed (a client that keeps the recorded evidence and tries
    /// things out on copies).
    ClonedState,
}

impl Delivery {
    pub fn for_schedule(index: usize, seed: u64) -> Delivery {
        let odd = seed % 2 == 1;
        match index {
            1 => Delivery::TwoPhase,
            2 if odd => Delivery::EqualitiesThroughInferMany,
            2 => Delivery::OneSidedEqualities,
            3 if odd => Delivery::StagedThroughTypeChecker,
            3 => Delivery::ThroughTypeChecker,
            4 if odd => Delivery::Staged,
            5 if seed % 4 >= 2 => Delivery::ClonedState,
            _ => Delivery::Plain,
        }
    }

    fn through_checker(self) -> bool {
        matches!(self, Delivery::ThroughTypeChecker | Delivery::StagedThroughTypeChecker)
    }

    fn staged(self) -> bool {
        matches!(self, Delivery::Staged | Delivery::StagedThroughTypeChecker)
    }
}

impl Default for UnifyOpts {
    fn default() -> Self {
        UnifyOpts {
            record_trace: false,
            record_folds: false,
            step_budget:  3_000_000,
            mode:         Delivery::Plain,
            staged_at:    None,
            with_slots:   false,
        }
    }
}

/// The value a harness variable stands for. Most are fresh opaque values;
/// every fourth one is another registration of the constant 1 and every
/// seventh one another registration of `CALLER` - leaves that are not stably
/// typed, so each registration still gets its own type variable, but whose
/// payloads compare equal (the way repeated constants and environment reads
/// do in real programs).
fn leaf_for(index: usize) -> sle::vm::value::RuntimeBoxedVal {
    use sle::vm::value::{known::KnownWord, RSVD};
    if index % 4 == 1 {
        RSV::new_known_value(0, KnownWord::from_le(1u32), Provenance::Synthetic, None)
    } else if index % 7 == 3 {
        RSV::new_synthetic(0, RSVD::Caller)
    } else {
        RSV::new_value(0, Provenance::Synthetic)
    }
}

/// Harness lengths at or above this stand for array lengths beyond 64 bits
/// (lengths are 256-bit quantities in the library).
pub const WIDE_LENGTH_BASE: u64 = u64::MAX - 15;
/// A fixed-array length of 2^200 + 3.
pub const WIDE_LENGTH: u64 = WIDE_LENGTH_BASE + 3;

/// The 256-bit length a harness length stands for (injective).
pub fn real_length(length: u64) -> U256 {
    if length >= WIDE_LENGTH_BASE {
        (U256::ONE << 200) + U256::from(length - WIDE_LENGTH_BASE)
    } else {
        U256::from(length)
    }
}

pub fn tv_index(tv: TypeVariable) -> usize {
    tv.index()
}

/// Builds the state through `register` + `infer` and runs the real `unify`.
pub fn run_unify(ev: &EvidenceSet, sched: &Sched, opts: &UnifyOpts) -> UnifyOutcome {
    verif::reset(hook_params(sched, opts.record_trace, opts.record_folds));
    let plan = WdPlan::budget(1, opts.step_budget);
    let (wd, stats) = sim::make_watchdog_pub(&plan);
    let wd: DynWatchdog = wd;
    sim::capture_panics(true);
    let result = panic::catch_unwind(AssertUnwindSafe(|| {
        // The state lives either on its own or inside a type checker.
        let mut checker = if opts.mode.through_checker() {
            Some(sle::tc::TypeChecker::new(sim::tc_config(false), wd.clone()))
        } else {
            None
        };
        let mut own_state = TypeCheckerState::empty();
        let state: &mut TypeCheckerState = match checker.as_mut() {
            Some(c) => unsafe { c.state_mut() },
            None => &mut own_state,
        };
        let vars: Vec<TypeVariable> = if opts.mode == Delivery::TwoPhase {
            let half = ev.n_vars / 2;
            let mut vars: Vec<TypeVariable> = (0..half).map(|i| state.register(leaf_for(i))).collect();
            // First use of the state object.
            let _ = state.variables();
            let _ = unification::unify(state, &wd);
            // Second use: more variables, allocated the way rules allocate
            // them, then the evidence.
            for _ in half..ev.n_vars {
                vars.push(unsafe { state.allocate_ty_var() });
            }
            vars
        } else {
            (0..ev.n_vars).map(|i| state.register(leaf_for(i))).collect()
        };
        if opts.with_slots {
            use sle::vm::value::{known::KnownWord, RSVD};
            for j in 0..ev.n_vars.min(3) {
                let key = RSV::new_known_value(0, KnownWord::from_le(j as u32), Provenance::Synthetic, None);
                let slot = state.register(RSV::new_synthetic(0, RSVD::StorageSlot { key }));
                state.infer(slot, TE::eq(vars[j]));
            }
        }
        let split = opts.staged_at.unwrap_or(ev.judgements.len() / 2);
        let record = |state: &mut TypeCheckerState, v: &usize, e: &Ev| match (opts.mode, e) {
            (Delivery::OneSidedEqualities, Ev::Equal { other }) if other != v => {
                state.inferences_mut(vars[*v]).insert(TE::eq(vars[*other]));
            }
            (Delivery::EqualitiesThroughInferMany, Ev::Equal { .. }) => state.infer_many([vars[*v]], e.to_te(&vars)),
            _ => state.infer(vars[*v], e.to_te(&vars)),
        };
        let first_stage = if opts.mode.staged() { split.min(ev.judgements.len()) } else { ev.judgements.len() };
        for (v, e) in &ev.judgements[..first_stage] {
            record(state, v, e);
        }
        if opts.mode.staged() {
            // The unification in the middle, then the rest of the evidence.
            if opts.mode.through_checker() {
                let _ = checker.as_mut().expect("checker exists in this mode").unify();
            } else {
                let _ = unification::unify(state, &wd);
            }
            let state: &mut TypeCheckerState = match checker.as_mut() {
                Some(c) => unsafe { c.state_mut() },
                None => &mut own_state,
            };
            for (v, e) in &ev.judgements[first_stage..] {
                record(state, v, e);
            }
        }
        let state: &mut TypeCheckerState = match checker.as_mut() {
            Some(c) => unsafe { c.state_mut() },
            None => &mut own_state,
        };
        let mut layout = None;
        let mut cloned: Option<TypeCheckerState> = None;
        let r = if opts.mode.through_checker() {
            // (the borrow of the state above ends here)
            checker.as_mut().expect("checker exists in this mode").unify().map(|l| {
                layout = Some(l);
            })
        } else if opts.mode == Delivery::ClonedState {
            let mut copy = state.clone();
            let r = unification::unify(&mut copy, &wd);
            cloned = Some(copy);
            r
        } else {
            unification::unify(state, &wd)
        };
        let state: &mut TypeCheckerState = match (cloned.as_mut(), checker.as_mut()) {
            (Some(copy), _) => copy,
            (None, Some(c)) => unsafe { c.state_mut() },
            (None, None) => &mut own_state,
        };
        let error = r.err().map(|e| {
            e.payloads()
                .iter()
                .map(|p| {
                    let s = format!("{:?}", p.payload);
                    s.split(|c: char| !c.is_alphanumeric()).next().unwrap_or("").to_string()
                })
                .collect::<Vec<_>>()
                .join(",")
        });
        let known = state.tyvar_count();
        // (a state that has lost count of its variables must not take the
        // harness down: every harness variable is looked up all the same)
        let n_after = known.max(vars.len());
        let mut class = Vec::with_capacity(n_after);
        let mut data = Vec::with_capacity(n_after);
        let var_index: Vec<usize> = vars.iter().map(|v| v.index()).collect();
        for i in 0..n_after {
            let tv = TypeVariable::from_index(i);
            let forest = state.result();
            class.push(forest.find(&tv).index());
            data.push(forest.get_data(&tv).map(|d| d.iter().cloned().collect::<Vec<_>>()));
        }
        (error, n_after, class, data, var_index, layout)
    }));
    sim::capture_panics(false);
    let record = verif::take_record();
    verif::reset(verif::Params::default());
    let _ = Rc::strong_count(&stats);
    match result {
        Ok((error, n_after, class, data, var_index, layout)) => {
            // Harness variables are registered first, so index i is variable i.
            debug_assert!(var_index.iter().enumerate().all(|(i, v)| i == *v));
            UnifyOutcome {
                panic: None,
                error,
                budget_exhausted: stats.budget_exhausted.get(),
                polls: stats.polls.get(),
                n_after,
                class,
                data,
                layout,
                record,
            }
        }
        Err(_) => UnifyOutcome {
            panic: sim::take_last_panic(),
            error: None,
            budget_exhausted: stats.budget_exhausted.get(),
            polls: stats.polls.get(),
            n_after: 0,
            class: vec![],
            data: vec![],
            layout: None,
            record,
        },
    }
}

/// Kind of a resolved expression with type variables erased.
pub fn te_kind(e: &TypeExpression) -> String {
    verif::kind_of(e)
}
