mod asm;
mod checks;
mod evidence;
mod framework;
mod rng;
mod shrink;
mod sim;
mod workload;

use framework::Tier;
use sim::{RunOpts, Scenario, Sched};

fn usage() -> ! {
    eprintln!(
        "usage:\n  slx-sim check <ID> [--tier quick|thorough] [--workers N]\n  slx-sim replay <file>\n  slx-sim case <ID> <tier> <index>\n  slx-sim probe <hex> [n]\n  slx-sim worker <ID> <tier>   (internal)"
    );
    std::process::exit(2);
}

fn main() {
    let args: Vec<String> = std::env::args().collect();
    sim::install_panic_hook();
    let checks = checks::all();
    let find = |id: &str| -> &'static dyn framework::Check {
        match checks.iter().find(|c| c.info().id == id) {
            Some(c) => *c,
            None => {
                eprintln!("harness error: unknown check {id}");
                std::process::exit(2);
            }
        }
    };
    match args.get(1).map(String::as_str) {
        Some("check") => {
            let id = args.get(2).cloned().unwrap_or_else(|| usage());
            let mut tier = std::env::var("VERIF_TIER").ok().and_then(|t| Tier::parse(&t)).unwrap_or(Tier::Quick);
            let mut workers = std::thread::available_parallelism().map(|n| n.get()).unwrap_or(8).min(16);
            let mut limit: Option<u64> = None;
            let mut dump: Option<String> = None;
            let mut i = 3;
            while i < args.len() {
                match args[i].as_str() {
                    "--tier" => {
                        tier = Tier::parse(args.get(i + 1).map(String::as_str).unwrap_or("")).unwrap_or_else(|| usage());
                        i += 2;
                    }
                    "--dump-findings" => {
                        dump = args.get(i + 1).cloned();
                        i += 2;
                    }
                    "--cases" => {
                        limit = args.get(i + 1).and_then(|s| s.parse().ok());
                        i += 2;
                    }
                    "--workers" => {
                        workers = args.get(i + 1).and_then(|s| s.parse().ok()).unwrap_or_else(|| usage());
                        i += 2;
                    }
                    _ => usage(),
                }
            }
            let code = framework::check_main(find(&id), tier, workers, limit, dump);
            std::process::exit(code);
        }
        Some("selftest") => {
            let tier = std::env::var("VERIF_TIER").ok().and_then(|t| Tier::parse(&t)).unwrap_or(Tier::Quick);
            match args.get(2).map(String::as_str) {
                Some("determinism") => std::process::exit(framework::selftest_determinism(find("D00"), tier)),
                _ => usage(),
            }
        }
        Some("worker") => {
            let id = args.get(2).cloned().unwrap_or_else(|| usage());
            let tier = Tier::parse(args.get(3).map(String::as_str).unwrap_or("")).unwrap_or_else(|| usage());
            framework::worker_main(find(&id), tier);
        }
        Some("replay") => {
            let path = args.get(2).cloned().unwrap_or_else(|| usage());
            std::process::exit(framework::replay_main(&checks, &path));
        }
        Some("case") => {
            let id = args.get(2).cloned().unwrap_or_else(|| usage());
            let tier = Tier::parse(args.get(3).map(String::as_str).unwrap_or("")).unwrap_or_else(|| usage());
            let idx: u64 = args.get(4).and_then(|s| s.parse().ok()).unwrap_or_else(|| usage());
            let c = find(&id);
            // The seed recorded in a replay file wins over the one derived
            // from VERIF_SEED.
            let seed = std::env::var("VERIF_CASE_SEED")
                .ok()
                .and_then(|s| s.parse().ok())
                .unwrap_or_else(|| framework::case_seed(framework::base_seed(), &id, idx));
            let r = sim::on_stack(c.stack_bytes(idx), move || c.run_case(idx, seed, tier));
            println!("{}", serde_json::to_string_pretty(&r).unwrap());
        }
        Some("gen") => {
            // slx-sim gen <ID> <tier> <index>: print the C02-style program of a case.
            let id = args.get(2).cloned().unwrap_or_else(|| usage());
            let tier = Tier::parse(args.get(3).map(String::as_str).unwrap_or("")).unwrap_or_else(|| usage());
            let idx: u64 = args.get(4).and_then(|s| s.parse().ok()).unwrap_or_else(|| usage());
            let seed = framework::case_seed(framework::base_seed(), &id, idx);
            let mut r = rng::Rng::new(seed);
            if id == "C01" {
                // the whole scenario (program, knobs, schedule, watchdog plan, API shape)
                let (sc, family) = checks::c01::gen_scenario(&mut r, tier);
                println!("{family} {}", serde_json::to_string(&sc).unwrap());
                return;
            }
            let (code, family) = checks::c02::gen_program(&mut r, tier);
            println!("{family} {}", hex::encode(code));
        }
        Some("folds") => {
            // slx-sim folds <hex> [budget]: dump the fold log of one run.
            let code = hex::decode(args[2].trim_start_matches("0x")).expect("hex");
            let budget: u64 = args.get(3).map(|s| s.parse().unwrap()).unwrap_or(400);
            sim::on_big_stack(move || {
                let mut sc = Scenario::simple(code.clone());
                sc.wd = sim::WdPlan::budget(1, budget);
                let out = sim::run(&sc, &RunOpts { record_trace: false, record_folds: true });
                println!("{}", out.summary());
                for f in &out.record.fold_log {
                    if f.kinds.len() >= 2 {
                        println!("round {} tv {} {:?} -> {}", f.round, f.tv, f.kinds, f.result);
                    }
                }
            });
        }
        Some("shrink-loop") => {
            // slx-sim shrink-loop <hex>: minimise a program that exhausts the step budget.
            let code = hex::decode(args[2].trim_start_matches("0x")).expect("hex");
            sim::on_big_stack(move || {
                let small = shrink::minimise(&code, 2000, |c| {
                    let mut sc = Scenario::simple(c.to_vec());
                    sc.wd = sim::WdPlan::budget(1, 50_000);
                    sim::run(&sc, &RunOpts::default()).budget_exhausted
                });
                println!("{}", hex::encode(small));
            });
        }
        Some("rounds") => {
            // slx-sim rounds <file.hex>...: unification rounds of real contracts.
            let files: Vec<String> = args[2..].to_vec();
            sim::on_big_stack(move || {
                for f in files {
                    let code = hex::decode(std::fs::read_to_string(&f).unwrap().trim().trim_start_matches("0x")).expect("hex");
                    let mut sc = Scenario::simple(code);
                    sc.knobs.permissive = true;
                    let t = std::time::Instant::now();
                    let out = sim::run(&sc, &RunOpts::default());
                    println!("{f} len={} class={:?} rounds={} folds={} max_fold={} events={} {:?}", sc.code.len(), out.class, out.record.unify_rounds, out.record.folds, out.record.fold_max_len, out.record.events, t.elapsed());
                }
            });
        }
        Some("probe") => {
            let code = hex::decode(args[2].trim_start_matches("0x")).expect("hex");
            let n: u64 = args.get(3).map(|s| s.parse().unwrap()).unwrap_or(8);
            sim::on_big_stack(move || {
                for k in 0..n {
                    let mut sc = Scenario::simple(code.clone());
                    sc.sched = Sched::natural(k);
                    sc.wd = sim::WdPlan::budget(1, 200_000);
                    let t = std::time::Instant::now();
                    let out = sim::run(&sc, &RunOpts::default());
                    println!("{} {:?} {}", sc.sched.label(), t.elapsed(), out.summary());
                }
            });
        }
        _ => usage(),
    }
}
