//! A tiny EVM assembler used by the workload generators.

use ethnum::U256;

pub mod op {
    pub const STOP: u8 = 0x00;
    pub const ADD: u8 = 0x01;
    pub const MUL: u8 = 0x02;
    pub const SUB: u8 = 0x03;
    pub const DIV: u8 = 0x04;
    pub const SDIV: u8 = 0x05;
    pub const MOD: u8 = 0x06;
    pub const SMOD: u8 = 0x07;
    pub const ADDMOD: u8 = 0x08;
    pub const MULMOD: u8 = 0x09;
    pub const EXP: u8 = 0x0a;
    pub const SIGNEXTEND: u8 = 0x0b;
    pub const LT: u8 = 0x10;
    pub const GT: u8 = 0x11;
    pub const SLT: u8 = 0x12;
    pub const SGT: u8 = 0x13;
    pub const EQ: u8 = 0x14;
    pub const ISZERO: u8 = 0x15;
    pub const AND: u8 = 0x16;
    pub const OR: u8 = 0x17;
    pub const XOR: u8 = 0x18;
    pub const NOT: u8 = 0x19;
    pub const BYTE: u8 = 0x1a;
    pub const SHL: u8 = 0x1b;
    pub const SHR: u8 = 0x1c;
    pub const SAR: u8 = 0x1d;
    pub const SHA3: u8 = 0x20;
    pub const ADDRESS: u8 = 0x30;
    pub const BALANCE: u8 = 0x31;
    pub const ORIGIN: u8 = 0x32;
    pub const CALLER: u8 = 0x33;
    pub const CALLVALUE: u8 = 0x34;
    pub const CALLDATALOAD: u8 = 0x35;
    pub const CALLDATASIZE: u8 = 0x36;
    pub const CALLDATACOPY: u8 = 0x37;
    pub const CODESIZE: u8 = 0x38;
    pub const CODECOPY: u8 = 0x39;
    pub const GASPRICE: u8 = 0x3a;
    pub const EXTCODESIZE: u8 = 0x3b;
    pub const EXTCODECOPY: u8 = 0x3c;
    pub const RETURNDATASIZE: u8 = 0x3d;
    pub const RETURNDATACOPY: u8 = 0x3e;
    pub const EXTCODEHASH: u8 = 0x3f;
    pub const BLOCKHASH: u8 = 0x40;
    pub const COINBASE: u8 = 0x41;
    pub const TIMESTAMP: u8 = 0x42;
    pub const NUMBER: u8 = 0x43;
    pub const PREVRANDAO: u8 = 0x44;
    pub const GASLIMIT: u8 = 0x45;
    pub const CHAINID: u8 = 0x46;
    pub const SELFBALANCE: u8 = 0x47;
    pub const BASEFEE: u8 = 0x48;
    pub const POP: u8 = 0x50;
    pub const MLOAD: u8 = 0x51;
    pub const MSTORE: u8 = 0x52;
    pub const MSTORE8: u8 = 0x53;
    pub const SLOAD: u8 = 0x54;
    pub const SSTORE: u8 = 0x55;
    pub const JUMP: u8 = 0x56;
    pub const JUMPI: u8 = 0x57;
    pub const PC: u8 = 0x58;
    pub const MSIZE: u8 = 0x59;
    pub const GAS: u8 = 0x5a;
    pub const JUMPDEST: u8 = 0x5b;
    pub const PUSH0: u8 = 0x5f;
    pub const PUSH1: u8 = 0x60;
    pub const PUSH32: u8 = 0x7f;
    pub const DUP1: u8 = 0x80;
    pub const SWAP1: u8 = 0x90;
    pub const LOG0: u8 = 0xa0;
    pub const CREATE: u8 = 0xf0;
    pub const CALL: u8 = 0xf1;
    pub const CALLCODE: u8 = 0xf2;
    pub const RETURN: u8 = 0xf3;
    pub const DELEGATECALL: u8 = 0xf4;
    pub const CREATE2: u8 = 0xf5;
    pub const STATICCALL: u8 = 0xfa;
    pub const REVERT: u8 = 0xfd;
    pub const INVALID: u8 = 0xfe;
    pub const SELFDESTRUCT: u8 = 0xff;
}

/// A label is an index into the assembler's label table.
#[derive(Copy, Clone, Debug, Eq, PartialEq)]
pub struct Label(pub usize);

#[derive(Clone, Debug, Default)]
pub struct Asm {
    pub code: Vec<u8>,
    labels:   Vec<Option<u16>>,
    fixups:   Vec<(usize, usize)>,
}

impl Asm {
    pub fn new() -> Self {
        Self::default()
    }

    pub fn len(&self) -> usize {
        self.code.len()
    }

    pub fn op(&mut self, b: u8) -> &mut Self {
        self.code.push(b);
        self
    }

    pub fn ops(&mut self, bs: &[u8]) -> &mut Self {
        self.code.extend_from_slice(bs);
        self
    }

    /// Minimal-width push of a 256-bit constant (PUSH0 for zero).
    pub fn push(&mut self, v: U256) -> &mut Self {
        if v == U256::ZERO {
            return self.op(op::PUSH0);
        }
        let be = v.to_be_bytes();
        let skip = be.iter().take_while(|b| **b == 0).count();
        let n = 32 - skip;
        self.code.push(op::PUSH1 + (n as u8) - 1);
        self.code.extend_from_slice(&be[skip..]);
        self
    }

    pub fn push_u(&mut self, v: u128) -> &mut Self {
        self.push(U256::from(v))
    }

    /// Push with an explicit width (1..=32); the value is truncated to fit.
    pub fn push_n(&mut self, n: usize, v: U256) -> &mut Self {
        let be = v.to_be_bytes();
        self.code.push(op::PUSH1 + (n as u8) - 1);
        self.code.extend_from_slice(&be[32 - n..]);
        self
    }

    pub fn dup(&mut self, n: usize) -> &mut Self {
        self.op(op::DUP1 + (n as u8) - 1)
    }

    pub fn swap(&mut self, n: usize) -> &mut Self {
        self.op(op::SWAP1 + (n as u8) - 1)
    }

    pub fn new_label(&mut self) -> Label {
        self.labels.push(None);
        Label(self.labels.len() - 1)
    }

    /// Emits a JUMPDEST and binds `l` to it.
    pub fn place(&mut self, l: Label) -> &mut Self {
        self.labels[l.0] = Some(self.code.len() as u16);
        self.op(op::JUMPDEST)
    }

    /// PUSH2 <label>.
    pub fn push_label(&mut self, l: Label) -> &mut Self {
        self.code.push(op::PUSH1 + 1);
        self.fixups.push((self.code.len(), l.0));
        self.code.extend_from_slice(&[0, 0]);
        self
    }

    pub fn jump_to(&mut self, l: Label) -> &mut Self {
        self.push_label(l).op(op::JUMP)
    }

    /// Expects the condition on the stack.
    pub fn jumpi_to(&mut self, l: Label) -> &mut Self {
        self.push_label(l).op(op::JUMPI)
    }

    pub fn finish(mut self) -> Vec<u8> {
        for (at, l) in &self.fixups {
            // An unplaced label points past the end: an invalid target.
            let t = self.labels[*l].unwrap_or(0xffff);
            self.code[*at] = (t >> 8) as u8;
            self.code[*at + 1] = (t & 0xff) as u8;
        }
        self.code
    }
}

/// keccak256 of the 32-byte big-endian encoding of `v`.
pub fn keccak_word(v: U256) -> U256 {
    use sha3::{Digest, Keccak256};
    let mut h = Keccak256::new();
    h.update(v.to_be_bytes());
    let out = h.finalize();
    let mut b = [0u8; 32];
    b.copy_from_slice(&out);
    U256::from_be_bytes(b)
}

/// Splits code into instruction start offsets (PUSH immediates skipped).
pub fn instruction_offsets(code: &[u8]) -> Vec<usize> {
    let mut v = Vec::new();
    let mut i = 0;
    while i < code.len() {
        v.push(i);
        let b = code[i];
        i += 1;
        if (op::PUSH1..=op::PUSH32).contains(&b) {
            i += (b - op::PUSH1) as usize + 1;
        }
    }
    v
}

pub fn jumpdest_offsets(code: &[u8]) -> Vec<usize> {
    instruction_offsets(code)
        .into_iter()
        .filter(|o| code[*o] == op::JUMPDEST)
        .collect()
}
