//! One simulated run: the real analysis pipeline driven under a schedule
//! (hash keys + iteration decisions), a watchdog plan (cancellation faults),
//! configuration knobs and an API shape; plus everything recorded about it.

use std::{
    cell::{Cell, RefCell},
    collections::hash_map::DefaultHasher,
    hash::{Hash, Hasher},
    panic::{self, AssertUnwindSafe},
    rc::Rc,
    sync::{
        atomic::{AtomicBool, Ordering},
        Arc,
        RwLock,
    },
};

use bimap::BiMap;
use ethnum::U256;
use serde::{Deserialize, Serialize};
use serde_json::{json, Value};
use storage_layout_extractor as sle;
use sle::{
    disassembly::InstructionStream,
    error::Error as TopError,
    extractor::{chain::Chain, contract::Contract},
    tc::{
        self,
        lift::{
            dynamic_array_access::DynamicArrayIndex,
            mapping_index::MappingIndex,
            mapping_offset::MappingOffset,
            mul_shifted::MulShiftedValue,
            packed_encoding::PackedEncoding,
            proxy_slots::ProxySlots,
            recognise_hashed_slots::StorageSlotHashes,
            storage_slots::StorageSlots,
            sub_word::SubWordValue,
            LiftingPasses,
        },
        rule::InferenceRules,
        TypeChecker,
    },
    verif,
    vm::{self, VM},
    watchdog::{DynWatchdog, FlagWatchdog, LazyWatchdog, Watchdog},
    StorageLayout,
};

use crate::rng::derive;

// ---------------------------------------------------------------------------
// Scenario description (all serialisable: this is what a replay file holds)
// ---------------------------------------------------------------------------

#[derive(Clone, Debug, Serialize, Deserialize, PartialEq, Eq)]
pub struct Knobs {
    pub gas_limit:        usize,
    pub max_iterations:   usize,
    pub max_forks:        usize,
    pub value_size_limit: usize,
    pub mem_op_limit:     usize,
    pub permissive:       bool,
}

impl Default for Knobs {
    fn default() -> Self {
        let c = vm::Config::default();
        Knobs {
            gas_limit:        c.gas_limit,
            max_iterations:   c.maximum_iterations_per_opcode,
            max_forks:        c.maximum_forks_per_fork_target,
            value_size_limit: c.value_size_limit,
            mem_op_limit:     c.single_memory_operation_size_limit,
            permissive:       c.permissive_errors,
        }
    }
}

impl Knobs {
    pub fn to_config(&self) -> vm::Config {
        vm::Config::default()
            .with_gas_limit(self.gas_limit)
            .with_max_iterations_per_opcode(self.max_iterations)
            .with_max_forks_per_fork_target(self.max_forks)
            .with_value_size_limit(self.value_size_limit)
            .with_memory_max_bytes(self.mem_op_limit)
            .with_permissive_errors(self.permissive)
    }
}

#[derive(Clone, Debug, Serialize, Deserialize, PartialEq, Eq, Hash)]
pub enum DecisionSer {
    Identity,
    Reverse,
    Rotate(u32),
    Shuffle(u64),
    KindAsc,
    KindDesc,
    Perm(Vec<u32>),
}

impl DecisionSer {
    fn to_hook(&self) -> verif::Decision {
        match self {
            DecisionSer::Identity => verif::Decision::Identity,
            DecisionSer::Reverse => verif::Decision::Reverse,
            DecisionSer::Rotate(r) => verif::Decision::Rotate(*r),
            DecisionSer::Shuffle(s) => verif::Decision::Shuffle(*s),
            DecisionSer::KindAsc => verif::Decision::KindAsc,
            DecisionSer::KindDesc => verif::Decision::KindDesc,
            DecisionSer::Perm(p) => verif::Decision::Perm(p.clone()),
        }
    }

    fn from_hook(d: &verif::Decision) -> Self {
        match d {
            verif::Decision::Identity => DecisionSer::Identity,
            verif::Decision::Reverse => DecisionSer::Reverse,
            verif::Decision::Rotate(r) => DecisionSer::Rotate(*r),
            verif::Decision::Shuffle(s) => DecisionSer::Shuffle(*s),
            verif::Decision::KindAsc => DecisionSer::KindAsc,
            verif::Decision::KindDesc => DecisionSer::KindDesc,
            verif::Decision::Perm(p) => DecisionSer::Perm(p.clone()),
        }
    }
}

#[derive(Clone, Debug, Serialize, Deserialize, PartialEq, Eq)]
pub struct ScriptEntry {
    pub event:    u32,
    pub site:     u64,
    pub site_str: String,
    pub n:        u32,
    pub decision: DecisionSer,
}

#[derive(Clone, Debug, Serialize, Deserialize, PartialEq, Eq)]
pub enum PolicySpec {
    /// Base order of the hash tables under the run's keys.
    Identity,
    /// Seeded decisions at a random subset of sites.
    Seeded { seed: u64, site_permille: u32, menu: u32 },
    /// Explicit decisions (replay, minimisation, enumeration).
    Scripted(Vec<ScriptEntry>),
}

/// The schedule of one run: hash keys (what a process's `RandomState` would
/// be) and the iteration decisions on top.
#[derive(Clone, Debug, Serialize, Deserialize, PartialEq, Eq)]
pub struct Sched {
    pub hash_keys: u64,
    pub policy:    PolicySpec,
}

impl Sched {
    pub fn natural(k: u64) -> Self {
        Sched {
            hash_keys: k,
            policy:    PolicySpec::Identity,
        }
    }

    pub fn adversarial(k: u64, site_permille: u32, menu: u32) -> Self {
        Sched {
            hash_keys: 0,
            policy:    PolicySpec::Seeded {
                seed: k,
                site_permille,
                menu,
            },
        }
    }

    pub fn label(&self) -> String {
        match &self.policy {
            PolicySpec::Identity => format!("natural({})", self.hash_keys),
            PolicySpec::Seeded {
                seed,
                site_permille,
                menu,
            } => format!(
                "adversarial(keys={},seed={seed},sites={site_permille}/1000,menu={menu})",
                self.hash_keys
            ),
            PolicySpec::Scripted(e) => format!("scripted(keys={},{} decisions)", self.hash_keys, e.len()),
        }
    }
}

#[derive(Clone, Debug, Serialize, Deserialize, PartialEq, Eq)]
pub enum WdKind {
    /// The library's own `LazyWatchdog`.
    Lazy,
    /// The simulator's counting watchdog.
    Sim,
    /// The library's `FlagWatchdog`, its flag driven by a simulated
    /// supervisor whose deadline is `stop_at` polls.
    Flag,
}

#[derive(Clone, Debug, Serialize, Deserialize, PartialEq, Eq)]
pub struct WdPlan {
    pub kind:       WdKind,
    pub poll_every: usize,
    /// Answer `true` from this poll index (0-based) on.
    pub stop_at:    Option<u64>,
    /// Answer `true` only once (legal for the trait, outside C13's statement).
    pub flap:       bool,
    /// Step budget: answer `true` once this many polls were made. A run that
    /// ends this way is "budget exhausted", not "cancelled".
    pub budget:     Option<u64>,
    /// Record the loop kind of every poll (baseline runs of C13).
    #[serde(default)]
    pub log_sites:  bool,
}

impl WdPlan {
    pub fn lazy() -> Self {
        WdPlan {
            kind:       WdKind::Lazy,
            poll_every: 0,
            stop_at:    None,
            flap:       false,
            budget:     None,
            log_sites:  false,
        }
    }

    pub fn never(p: usize) -> Self {
        WdPlan {
            kind:       WdKind::Sim,
            poll_every: p,
            stop_at:    None,
            flap:       false,
            budget:     None,
            log_sites:  false,
        }
    }

    pub fn stop_at(p: usize, k: u64) -> Self {
        WdPlan {
            kind:       WdKind::Sim,
            poll_every: p,
            stop_at:    Some(k),
            flap:       false,
            budget:     None,
            log_sites:  false,
        }
    }

    pub fn budget(p: usize, b: u64) -> Self {
        WdPlan {
            kind:       WdKind::Sim,
            poll_every: p,
            stop_at:    None,
            flap:       false,
            budget:     Some(b),
            log_sites:  false,
        }
    }
}

#[derive(Clone, Debug, Serialize, Deserialize, PartialEq, Eq)]
pub enum Api {
    /// `new(..).analyze()`.
    OneCall,
    /// The staged extractor calls, stopping after stage `n`
    /// (0 disassemble, 1 prepare_vm, 2 execute, 3 prepare_unifier, 4 infer).
    Staged(u8),
    /// `VM::new` / `execute` / `consume` / `TypeChecker::run`, inspecting the
    /// VM in between. If `continue_on_error`, the type checker is run on the
    /// partial state even when execution failed (the documented client move).
    VmThenTc { continue_on_error: bool },
    /// As `VmThenTc{false}`, but the type-checker phases are called one by one.
    Phases,
    /// As `VmThenTc{false}`, then the program is executed a second time on a
    /// fresh VM and the *same* `TypeChecker` runs on that result too (a client
    /// that keeps one checker around); the outcome is that of the second run.
    ReusedChecker,
}

#[derive(Clone, Debug, Serialize, Deserialize, PartialEq, Eq)]
pub struct Scenario {
    #[serde(with = "hex_bytes")]
    pub code:           Vec<u8>,
    pub knobs:          Knobs,
    pub sched:          Sched,
    pub wd:             WdPlan,
    pub api:            Api,
    /// A sibling analysis panicked while holding the shared slot-hash table.
    pub poisoned_table: bool,
}

impl Scenario {
    pub fn simple(code: Vec<u8>) -> Self {
        Scenario {
            code,
            knobs: Knobs::default(),
            sched: Sched::natural(0),
            wd: WdPlan::lazy(),
            api: Api::OneCall,
            poisoned_table: false,
        }
    }
}

pub mod hex_bytes {
    use serde::{Deserialize, Deserializer, Serializer};

    pub fn serialize<S: Serializer>(v: &Vec<u8>, s: S) -> Result<S::Ok, S::Error> {
        s.serialize_str(&hex::encode(v))
    }

    pub fn deserialize<'de, D: Deserializer<'de>>(d: D) -> Result<Vec<u8>, D::Error> {
        let s = String::deserialize(d)?;
        hex::decode(s.trim_start_matches("0x")).map_err(serde::de::Error::custom)
    }
}

// ---------------------------------------------------------------------------
// Watchdogs
// ---------------------------------------------------------------------------

#[derive(Debug, Default)]
pub struct WdStats {
    pub polls:            Cell<u64>,
    pub first_true:       Cell<Option<u64>>,
    pub trues:            Cell<u64>,
    pub polls_after_true: Cell<u64>,
    pub budget_exhausted: Cell<bool>,
    pub site_of_first_true: Cell<Option<usize>>,
    /// The simulated supervisor has stored `true` into the shared flag.
    pub supervisor_fired: Cell<bool>,
    /// Site (loop kind) of every poll, in order; 255 = unattributed.
    pub poll_sites: RefCell<Vec<u8>>,
}

#[derive(Debug)]
pub struct SimWatchdog {
    plan:  WdPlan,
    stats: Rc<WdStats>,
    /// Only for `WdKind::Flag`: the real watchdog and the supervisor's handle.
    flag:  Option<(FlagWatchdog, Arc<AtomicBool>)>,
}

impl SimWatchdog {
    fn answer(&self, index: u64) -> bool {
        if let Some(b) = self.plan.budget {
            if index >= b {
                self.stats.budget_exhausted.set(true);
                return true;
            }
        }
        match self.plan.stop_at {
            Some(k) if self.plan.flap => index == k,
            Some(k) => index >= k,
            None => false,
        }
    }
}

impl Watchdog for SimWatchdog {
    fn should_stop(&self) -> bool {
        // Logging only: no randomness, no clock.
        verif::note_poll();
        if self.plan.log_sites {
            self.stats.poll_sites.borrow_mut().push(verif::current_site().map_or(255, |s| s as u8));
        }
        let index = self.stats.polls.get();
        self.stats.polls.set(index + 1);
        if self.stats.first_true.get().is_some() {
            self.stats.polls_after_true.set(self.stats.polls_after_true.get() + 1);
        }
        let stop = match &self.flag {
            None => self.answer(index),
            Some((real, handle)) => {
                // Discrete-event model of the supervising thread: its timer
                // fires once, when the simulated clock (poll index) reaches
                // the deadline, and it stores `true` once - it does not keep
                // re-raising the flag. The analysis side is the library's
                // real `FlagWatchdog::should_stop`.
                if self.answer(index) && !self.stats.supervisor_fired.get() {
                    self.stats.supervisor_fired.set(true);
                    handle.store(true, Ordering::Relaxed);
                }
                real.should_stop()
            }
        };
        if stop {
            self.stats.trues.set(self.stats.trues.get() + 1);
            if self.stats.first_true.get().is_none() {
                self.stats.first_true.set(Some(index));
                self.stats.site_of_first_true.set(verif::current_site());
            }
        }
        stop
    }

    fn poll_every(&self) -> usize {
        match &self.flag {
            None => self.plan.poll_every,
            Some((real, _)) => real.poll_every(),
        }
    }
}

pub fn make_watchdog_pub(plan: &WdPlan) -> (DynWatchdog, Rc<WdStats>) {
    make_watchdog(plan)
}

pub fn capture_panics(on: bool) {
    CAPTURE.with(|c| c.set(on));
    if on {
        LAST_PANIC.with(|p| *p.borrow_mut() = None);
    }
}

pub fn take_last_panic() -> Option<PanicInfo> {
    LAST_PANIC.with(|p| p.borrow_mut().take())
}

fn make_watchdog(plan: &WdPlan) -> (DynWatchdog, Rc<WdStats>) {
    let stats = Rc::new(WdStats::default());
    let wd: DynWatchdog = match plan.kind {
        WdKind::Lazy => LazyWatchdog.in_rc(),
        WdKind::Sim => Rc::new(SimWatchdog {
            plan:  plan.clone(),
            stats: stats.clone(),
            flag:  None,
        }),
        WdKind::Flag => {
            let handle = Arc::new(AtomicBool::new(false));
            let real = FlagWatchdog::new(handle.clone()).polling_every(plan.poll_every);
            Rc::new(SimWatchdog {
                plan:  plan.clone(),
                stats: stats.clone(),
                flag:  Some((real, handle)),
            })
        }
    };
    (wd, stats)
}

// ---------------------------------------------------------------------------
// Outcome
// ---------------------------------------------------------------------------

#[derive(Clone, Debug, Serialize, Deserialize, PartialEq, Eq, Hash)]
pub struct ErrInfo {
    pub family:   String,
    pub kind:     String,
    pub location: u32,
}

#[derive(Clone, Debug, Serialize, Deserialize, PartialEq, Eq)]
pub struct PanicInfo {
    pub signature: String,
    pub message:   String,
    pub location:  String,
    pub function:  String,
}

#[derive(Clone, Debug, PartialEq, Eq)]
pub enum Class {
    Ok,
    Err,
    Panic,
}

#[derive(Clone, Debug, Default, Serialize, Deserialize)]
pub struct VmStats {
    pub code_len:        usize,
    pub jumpdests:       usize,
    pub states:          usize,
    pub remaining:       usize,
    pub max_visit:       usize,
    pub max_visit_at:    u32,
    pub max_fork:        usize,
    pub max_fork_at:     u32,
    /// max over states of sum(visit_count * min_gas_cost).
    pub max_gas:         u128,
    pub max_min_gas_cost: usize,
    pub exec_ok:         bool,
    /// Forks per jump destination counted from the fork points of the stored
    /// states (only where the JUMPI's target is a literal PUSH right before
    /// it): (largest count, its target). Independent of the VM's own counter.
    #[serde(default)]
    pub max_forks_seen:  usize,
    #[serde(default)]
    pub max_forks_seen_at: u32,
}

#[derive(Clone, Debug)]
pub struct Outcome {
    pub class:        Class,
    pub layout:       Option<StorageLayout>,
    pub layout_json:  Option<String>,
    pub errors:       Vec<ErrInfo>,
    pub panic:        Option<PanicInfo>,
    pub record:       verif::Record,
    pub polls:        u64,
    /// The interval the watchdog object handed to the library answers from
    /// `poll_every()` (for `WdKind::Flag`: the library's own `FlagWatchdog`,
    /// built with `polling_every(plan.poll_every)`).
    pub interval_seen: usize,
    pub first_true:   Option<u64>,
    pub first_true_site: Option<usize>,
    pub trues:        u64,
    pub polls_after_true: u64,
    pub budget_exhausted: bool,
    pub poll_sites:   Vec<u8>,
    pub stage_reached: u8,
    pub vm:           Option<VmStats>,
    /// Anything the API shape wants to expose (e.g. per-phase results).
    pub notes:        Vec<String>,
}

impl Outcome {
    pub fn stopped_by_watchdog(&self) -> bool {
        self.errors.iter().any(|e| e.kind == "StoppedByWatchdog")
    }

    pub fn error_kinds(&self) -> Vec<String> {
        let mut k: Vec<String> = self.errors.iter().map(|e| format!("{}::{}", e.family, e.kind)).collect();
        k.sort();
        k
    }

    /// The result as the properties see it: class + layout (conflict payloads
    /// erased by the library's own `PartialEq`) or error kinds.
    pub fn result_digest(&self) -> u64 {
        let mut h = DefaultHasher::new();
        match self.class {
            Class::Ok => {
                0u8.hash(&mut h);
                if let Some(l) = &self.layout {
                    for s in l.slots() {
                        s.hash(&mut h);
                    }
                }
            }
            Class::Err => {
                1u8.hash(&mut h);
                self.error_kinds().hash(&mut h);
            }
            Class::Panic => {
                2u8.hash(&mut h);
                self.panic.as_ref().map(|p| p.signature.clone()).hash(&mut h);
            }
        }
        h.finish()
    }

    /// Digest of everything recorded: two executions of the same scenario must
    /// agree on it (determinism self-test, replay).
    pub fn fingerprint(&self) -> u64 {
        let mut h = DefaultHasher::new();
        self.result_digest().hash(&mut h);
        self.layout_json.hash(&mut h);
        self.errors.hash(&mut h);
        self.record.events.hash(&mut h);
        self.record.trace_digest.hash(&mut h);
        self.record.fold_digest.hash(&mut h);
        self.record.folds.hash(&mut h);
        self.record.ids_issued.hash(&mut h);
        self.record.site_ticks.hash(&mut h);
        self.record.site_polls.hash(&mut h);
        self.polls.hash(&mut h);
        self.first_true.hash(&mut h);
        self.stage_reached.hash(&mut h);
        h.finish()
    }

    pub fn summary(&self) -> Value {
        json!({
            "class": match self.class { Class::Ok => "ok", Class::Err => "err", Class::Panic => "panic" },
            "layout": self.layout_json.as_ref().map(|s| serde_json::from_str::<Value>(s).unwrap_or(Value::Null)),
            "errors": self.errors.iter().take(8).map(|e| format!("{}::{}@{}", e.family, e.kind, e.location)).collect::<Vec<_>>(),
            "panic": self.panic.as_ref().map(|p| p.signature.clone()),
            "polls": self.polls,
            "first_true": self.first_true,
            "events": self.record.events,
            "permuted_events": self.record.permuted_events,
            "folds_multi": self.record.folds_multi,
            "unify_rounds": self.record.unify_rounds,
            "fingerprint": format!("{:016x}", self.fingerprint()),
        })
    }
}

// ---------------------------------------------------------------------------
// Panic capture
// ---------------------------------------------------------------------------

thread_local! {
    static LAST_PANIC: RefCell<Option<PanicInfo>> = RefCell::new(None);
    static CAPTURE: Cell<bool> = Cell::new(false);
}

fn normalise_message(m: &str) -> String {
    // Keep the message class: digits and quoted payloads are data.
    let mut out = String::new();
    let mut last_digit = false;
    for ch in m.chars().take(160) {
        if ch.is_ascii_digit() {
            if !last_digit {
                out.push('N');
            }
            last_digit = true;
        } else {
            last_digit = false;
            out.push(ch);
        }
    }
    if let Some(ix) = out.find(": ") {
        // "...: <debug payload>" -> keep the head only when the tail is long.
        if out.len() - ix > 60 {
            out.truncate(ix);
        }
    }
    out
}

fn demangle_frame(sym: &str) -> Option<String> {
    // Keep `storage_layout_extractor::...` frames, drop the hash suffix and
    // the simulation seam itself.
    let start = sym.find("storage_layout_extractor::")?;
    let mut s = sym[start..].to_string();
    if let Some(ix) = s.rfind("::h") {
        if s[ix + 3..].chars().all(|c| c.is_ascii_hexdigit()) {
            s.truncate(ix);
        }
    }
    if s.contains("::verif::") {
        return None;
    }
    // Closures: attribute to the enclosing function.
    while s.ends_with("::{{closure}}") {
        let n = s.len() - "::{{closure}}".len();
        s.truncate(n);
    }
    Some(s)
}

pub fn install_panic_hook() {
    let default = panic::take_hook();
    panic::set_hook(Box::new(move |info| {
        if !CAPTURE.with(Cell::get) {
            default(info);
            return;
        }
        let message = if let Some(s) = info.payload().downcast_ref::<&str>() {
            (*s).to_string()
        } else if let Some(s) = info.payload().downcast_ref::<String>() {
            s.clone()
        } else {
            "<non-string panic>".to_string()
        };
        let (file, location) = match info.location() {
            Some(l) => (l.file().to_string(), format!("{}:{}:{}", l.file(), l.line(), l.column())),
            None => ("?".into(), "?".into()),
        };
        let bt = std::backtrace::Backtrace::force_capture().to_string();
        let mut function = String::from("?");
        for line in bt.lines() {
            let line = line.trim();
            // Lines look like "12: storage_layout_extractor::vm::...".
            if let Some((_, sym)) = line.split_once(": ") {
                if let Some(f) = demangle_frame(sym) {
                    function = f;
                    break;
                }
            }
        }
        // Library files as `src/..`; files of dependencies as
        // `<crate-version>/src/..` (without the registry directory).
        let file_short = match file.rfind("/src/") {
            Some(ix) if file.starts_with('/') => {
                let head = &file[..ix];
                let krate = head.rsplit('/').next().unwrap_or("");
                if head.ends_with("/repo") || !head.contains("/registry/") {
                    file[ix + 1..].to_string()
                } else {
                    format!("{krate}{}", &file[ix..])
                }
            }
            _ => file.clone(),
        };
        let signature = format!("panic:{}:{}:{}", file_short, function, normalise_message(&message));
        LAST_PANIC.with(|p| {
            *p.borrow_mut() = Some(PanicInfo {
                signature,
                message: message.chars().take(300).collect(),
                location,
                function,
            });
        });
    }));
}

// ---------------------------------------------------------------------------
// Shared slot-hash table (N5)
// ---------------------------------------------------------------------------

pub type SlotHashes = Arc<RwLock<BiMap<U256, usize>>>;

thread_local! {
    static HASHES: RefCell<Option<SlotHashes>> = RefCell::new(None);
    static POISONED: RefCell<Option<SlotHashes>> = RefCell::new(None);
}

/// The table of the first 10 000 slot hashes, computed once per worker and
/// shared between analyses exactly as `StorageSlotHashes::new_with_hashes`
/// is documented to allow.
pub fn shared_hashes() -> SlotHashes {
    HASHES.with(|h| {
        let mut h = h.borrow_mut();
        if h.is_none() {
            *h = Some(Arc::new(RwLock::new(StorageSlotHashes::make_hashes(10_000))));
        }
        h.as_ref().unwrap().clone()
    })
}

/// A table whose lock was poisoned by a sibling analysis that panicked while
/// holding the write guard.
pub fn poisoned_hashes() -> SlotHashes {
    POISONED.with(|h| {
        let mut h = h.borrow_mut();
        if h.is_none() {
            let table: SlotHashes = Arc::new(RwLock::new(StorageSlotHashes::make_hashes(16)));
            let t2 = table.clone();
            let was = CAPTURE.with(|c| c.replace(true));
            let _ = panic::catch_unwind(AssertUnwindSafe(move || {
                let _guard = t2.write().unwrap();
                panic!("sibling analysis died while holding the table");
            }));
            CAPTURE.with(|c| c.set(was));
            LAST_PANIC.with(|p| *p.borrow_mut() = None);
            assert!(table.is_poisoned());
            *h = Some(table);
        }
        h.as_ref().unwrap().clone()
    })
}

thread_local! {
    /// When set, `tc_config` builds the slot-hash pass the way
    /// `tc::Config::default()` does (`StorageSlotHashes::new()`: a table of
    /// its own, built by the library) instead of sharing one table between
    /// the analyses of a worker.
    static OWN_TABLE: std::cell::Cell<bool> = std::cell::Cell::new(false);
}

/// The next runs on this thread use a slot-hash table of their own.
pub fn set_own_table(on: bool) {
    OWN_TABLE.with(|f| f.set(on));
}

pub fn tc_config(poisoned: bool) -> tc::Config {
    if !poisoned && OWN_TABLE.with(std::cell::Cell::get) {
        return tc::Config::default();
    }
    let table = if poisoned { poisoned_hashes() } else { shared_hashes() };
    // The default pass list of `LiftingPasses::default()`, in the same order,
    // with the hash table shared instead of recomputed.
    let passes = LiftingPasses::new(vec![
        StorageSlotHashes::new_with_hashes(table) as Box<dyn tc::lift::Lift>,
        ProxySlots::new(),
        MappingIndex::new(),
        SubWordValue::new(),
        MulShiftedValue::new(),
        PackedEncoding::new(),
        DynamicArrayIndex::new(),
        StorageSlots::new(),
        MappingOffset::new(),
    ]);
    tc::Config {
        lifting_passes:  passes,
        inference_rules: InferenceRules::default(),
    }
}

// ---------------------------------------------------------------------------
// Running
// ---------------------------------------------------------------------------

pub fn hook_params(s: &Sched, record_trace: bool, record_folds: bool) -> verif::Params {
    let policy = match &s.policy {
        PolicySpec::Identity => verif::Policy::Identity,
        PolicySpec::Seeded {
            seed,
            site_permille,
            menu,
        } => verif::Policy::Seeded {
            seed:          *seed,
            site_salt:     derive(*seed, 77),
            site_permille: *site_permille,
            menu:          *menu,
        },
        PolicySpec::Scripted(entries) => {
            let mut v: Vec<verif::ScriptEntry> = entries
                .iter()
                .map(|e| verif::ScriptEntry {
                    event:    e.event,
                    site:     e.site,
                    n:        e.n,
                    decision: e.decision.to_hook(),
                })
                .collect();
            v.sort_by_key(|e| e.event);
            verif::Policy::Scripted(v)
        }
    };
    verif::Params {
        key0: derive(s.hash_keys, 1),
        key1: derive(s.hash_keys, 2),
        policy,
        record_trace,
        record_folds,
    }
}

pub fn trace_to_script(trace: &[verif::Event]) -> Vec<ScriptEntry> {
    trace
        .iter()
        .filter(|e| e.decision != verif::Decision::Identity)
        .map(|e| ScriptEntry {
            event:    e.event,
            site:     e.site,
            site_str: e.site_str.clone(),
            n:        e.n,
            decision: DecisionSer::from_hook(&e.decision),
        })
        .collect()
}

fn variant_name<T: std::fmt::Debug>(v: &T) -> String {
    let s = format!("{v:?}");
    let end = s.find(|c: char| !(c.is_alphanumeric() || c == '_')).unwrap_or(s.len());
    s[..end].to_string()
}

fn top_errors(errs: &sle::error::Errors) -> Vec<ErrInfo> {
    errs.payloads()
        .iter()
        .map(|e| {
            let (family, kind) = match &e.payload {
                TopError::Disassembly(d) => ("disassembly", variant_name(d)),
                TopError::Execution(x) => ("execution", variant_name(x)),
                TopError::Unification(u) => ("unification", variant_name(u)),
                TopError::Other(_) => ("other", "Other".to_string()),
            };
            ErrInfo {
                family: family.into(),
                kind,
                location: e.location,
            }
        })
        .collect()
}

fn exec_errors(errs: &sle::error::execution::Errors) -> Vec<ErrInfo> {
    errs.payloads()
        .iter()
        .map(|e| ErrInfo {
            family:   "execution".into(),
            kind:     variant_name(&e.payload),
            location: e.location,
        })
        .collect()
}

fn unif_errors(errs: &sle::error::unification::Errors) -> Vec<ErrInfo> {
    errs.payloads()
        .iter()
        .map(|e| ErrInfo {
            family:   "unification".into(),
            kind:     variant_name(&e.payload),
            location: e.location,
        })
        .collect()
}

enum Body {
    Layout(StorageLayout),
    /// A prefix of the stages completed without error and no layout was asked
    /// for.
    Partial,
    Errors(Vec<ErrInfo>),
}

struct BodyOut {
    body:  Body,
    stage: u8,
    vm:    Option<VmStats>,
    notes: Vec<String>,
}

fn vm_stats(vm: &VM, code: &[u8], exec_ok: bool) -> VmStats {
    let mut st = VmStats {
        code_len: code.len(),
        states: vm.stored_states().len(),
        remaining: vm.remaining_thread_count(),
        exec_ok,
        ..VmStats::default()
    };
    let len = code.len() as u32;
    // Per-offset minimum gas cost and jump destinations, from the library's
    // own instruction stream.
    let thread = vm.instructions().new_thread(0).ok();
    let mut costs = vec![0usize; code.len()];
    let mut is_jd = vec![false; code.len()];
    if let Some(t) = &thread {
        for off in 0..len {
            if let Some(opc) = t.instruction(off) {
                costs[off as usize] = opc.min_gas_cost();
                // (`as_byte` panics by design on the push-data placeholder.)
                if opc.as_ref().as_any().downcast_ref::<sle::opcode::control::JumpDest>().is_some() {
                    is_jd[off as usize] = true;
                }
            }
        }
    }
    st.max_min_gas_cost = costs.iter().copied().max().unwrap_or(0);
    st.jumpdests = is_jd.iter().filter(|b| **b).count();
    for state in vm.stored_states() {
        let mut gas: u128 = 0;
        for off in 0..len {
            let c = state.visited_instructions().visit_count(off).unwrap_or(0);
            if c > st.max_visit {
                st.max_visit = c;
                st.max_visit_at = off;
            }
            gas += (c as u128) * (costs[off as usize] as u128);
        }
        if gas > st.max_gas {
            st.max_gas = gas;
        }
    }
    // Independent fork count: every stored state that was forked records the
    // offset of the JUMPI that forked it.
    let mut per_target: std::collections::BTreeMap<u32, usize> = std::collections::BTreeMap::new();
    for state in vm.stored_states() {
        let p = state.fork_point() as usize;
        if p == 0 || p >= code.len() || code[p] != 0x57 {
            continue;
        }
        let target = if p >= 3 && code[p - 3] == 0x61 {
            Some((u32::from(code[p - 2]) << 8) | u32::from(code[p - 1]))
        } else if p >= 2 && code[p - 2] == 0x60 {
            Some(u32::from(code[p - 1]))
        } else {
            None
        };
        if let Some(t) = target {
            if (t as usize) < code.len() && is_jd[t as usize] {
                *per_target.entry(t).or_insert(0) += 1;
            }
        }
    }
    if let Some((t, c)) = per_target.iter().max_by_key(|(_, c)| **c) {
        st.max_forks_seen = *c;
        st.max_forks_seen_at = *t;
    }
    for off in 0..len {
        if is_jd[off as usize] {
            if let Ok(c) = vm.jump_targets().cond_jump_count(off) {
                if c > st.max_fork {
                    st.max_fork = c;
                    st.max_fork_at = off;
                }
            }
        }
    }
    st
}

fn run_body(sc: &Scenario, wd: DynWatchdog) -> BodyOut {
    let mut notes = Vec::new();
    match &sc.api {
        Api::OneCall => {
            let contract = Contract::new(sc.code.clone(), Chain::Ethereum { version: sle::extractor::chain::version::EthereumVersion::Shanghai });
            let ex = sle::new(contract, sc.knobs.to_config(), tc_config(sc.poisoned_table), wd);
            match ex.analyze() {
                Ok(l) => BodyOut {
                    body: Body::Layout(l),
                    stage: 5,
                    vm: None,
                    notes,
                },
                Err(e) => BodyOut {
                    body: Body::Errors(top_errors(&e)),
                    stage: 0,
                    vm: None,
                    notes,
                },
            }
        }
        Api::Staged(stop_after) => {
            let contract = Contract::new(sc.code.clone(), Chain::Ethereum { version: sle::extractor::chain::version::EthereumVersion::Shanghai });
            let ex = sle::new(contract, sc.knobs.to_config(), tc_config(sc.poisoned_table), wd);
            macro_rules! bail {
                ($e:expr, $stage:expr) => {
                    return BodyOut {
                        body: Body::Errors(top_errors(&$e)),
                        stage: $stage,
                        vm: None,
                        notes,
                    }
                };
            }
            macro_rules! partial {
                ($stage:expr) => {
                    return BodyOut {
                        body: Body::Partial,
                        stage: $stage,
                        vm: None,
                        notes,
                    }
                };
            }
            let ex = match ex.disassemble() {
                Ok(x) => x,
                Err(e) => bail!(e, 0),
            };
            if *stop_after == 0 {
                partial!(1);
            }
            let ex = match ex.prepare_vm() {
                Ok(x) => x,
                Err(e) => bail!(e, 1),
            };
            if *stop_after == 1 {
                partial!(2);
            }
            let ex = match ex.execute() {
                Ok(x) => x,
                Err(e) => bail!(e, 2),
            };
            if *stop_after == 2 {
                partial!(3);
            }
            let ex = ex.prepare_unifier();
            if *stop_after == 3 {
                partial!(4);
            }
            match ex.infer() {
                Ok(x) => BodyOut {
                    body: Body::Layout(x.layout().clone()),
                    stage: 5,
                    vm: None,
                    notes,
                },
                Err(e) => bail!(e, 4),
            }
        }
        Api::VmThenTc { .. } | Api::Phases | Api::ReusedChecker => {
            let continue_on_error = matches!(sc.api, Api::VmThenTc { continue_on_error: true });
            let stream = match InstructionStream::try_from(sc.code.as_slice()) {
                Ok(s) => s,
                Err(e) => {
                    let errs: sle::error::Errors = e.into();
                    return BodyOut {
                        body: Body::Errors(top_errors(&errs)),
                        stage: 0,
                        vm: None,
                        notes,
                    };
                }
            };
            let mut machine = match VM::new(stream, sc.knobs.to_config(), wd.clone()) {
                Ok(m) => m,
                Err(e) => {
                    let errs: sle::error::Errors = e.into();
                    return BodyOut {
                        body: Body::Errors(top_errors(&errs)),
                        stage: 1,
                        vm: None,
                        notes,
                    };
                }
            };
            let exec = machine.execute();
            let stats = vm_stats(&machine, &sc.code, exec.is_ok());
            let mut exec_errs = Vec::new();
            if let Err(e) = &exec {
                exec_errs = exec_errors(e);
                if !continue_on_error {
                    return BodyOut {
                        body: Body::Errors(exec_errs),
                        stage: 2,
                        vm: Some(stats),
                        notes,
                    };
                }
                notes.push("continued_on_partial_state".into());
            }
            let result = machine.consume();
            let wd_again = wd.clone();
            let mut checker = TypeChecker::new(tc_config(sc.poisoned_table), wd);
            let tc_result = if matches!(sc.api, Api::Phases) {
                (|| {
                    let lifted = checker.lift(result)?;
                    notes.push(format!("lifted={}", lifted.len()));
                    checker.assign_vars(lifted)?;
                    checker.infer()?;
                    checker.unify()
                })()
            } else {
                checker.run(result)
            };
            let tc_result = if matches!(sc.api, Api::ReusedChecker) {
                notes.push(format!("first_run_ok={}", tc_result.is_ok()));
                let again = InstructionStream::try_from(sc.code.as_slice())
                    .ok()
                    .and_then(|stream| VM::new(stream, sc.knobs.to_config(), wd_again.clone()).ok());
                match again {
                    Some(mut machine) => {
                        let _ = machine.execute();
                        checker.run(machine.consume())
                    }
                    None => tc_result,
                }
            } else {
                tc_result
            };
            match tc_result {
                Ok(l) => BodyOut {
                    body: if exec_errs.is_empty() {
                        Body::Layout(l)
                    } else {
                        // A layout from partial state is legitimate here (the
                        // client asked for it); report the execution errors
                        // as the result class all the same.
                        notes.push(format!("partial_layout_slots={}", l.slot_count()));
                        Body::Errors(exec_errs)
                    },
                    stage: 5,
                    vm: Some(stats),
                    notes,
                },
                Err(e) => {
                    let mut all = exec_errs;
                    all.extend(unif_errors(&e));
                    BodyOut {
                        body: Body::Errors(all),
                        stage: 4,
                        vm: Some(stats),
                        notes,
                    }
                }
            }
        }
    }
}

pub struct RunOpts {
    pub record_trace: bool,
    pub record_folds: bool,
}

impl Default for RunOpts {
    fn default() -> Self {
        RunOpts {
            record_trace: false,
            record_folds: false,
        }
    }
}

/// Executes one scenario on the current thread.
pub fn run(sc: &Scenario, opts: &RunOpts) -> Outcome {
    verif::reset(hook_params(&sc.sched, opts.record_trace, opts.record_folds));
    let (wd, stats) = make_watchdog(&sc.wd);
    let interval_seen = wd.poll_every();
    LAST_PANIC.with(|p| *p.borrow_mut() = None);
    CAPTURE.with(|c| c.set(true));
    let result = panic::catch_unwind(AssertUnwindSafe(|| run_body(sc, wd)));
    CAPTURE.with(|c| c.set(false));
    let record = verif::take_record();
    // Leave the thread's context in identity mode between runs.
    verif::reset(verif::Params::default());

    let mut out = Outcome {
        class: Class::Ok,
        layout: None,
        layout_json: None,
        errors: Vec::new(),
        panic: None,
        record,
        polls: stats.polls.get(),
        interval_seen,
        first_true: stats.first_true.get(),
        first_true_site: stats.site_of_first_true.get(),
        trues: stats.trues.get(),
        polls_after_true: stats.polls_after_true.get(),
        budget_exhausted: stats.budget_exhausted.get(),
        poll_sites: stats.poll_sites.borrow().clone(),
        stage_reached: 0,
        vm: None,
        notes: Vec::new(),
    };
    match result {
        Ok(body) => {
            out.stage_reached = body.stage;
            out.vm = body.vm;
            out.notes = body.notes;
            match body.body {
                Body::Layout(l) => {
                    out.layout_json = Some(serde_json::to_string(l.slots()).unwrap_or_else(|e| format!("\"<serialisation failed: {e}>\"")));
                    out.layout = Some(l);
                    out.class = Class::Ok;
                }
                Body::Partial => {
                    out.class = Class::Ok;
                }
                Body::Errors(e) => {
                    out.class = Class::Err;
                    out.errors = e;
                }
            }
        }
        Err(_) => {
            out.class = Class::Panic;
            out.panic = LAST_PANIC.with(|p| p.borrow_mut().take()).or(Some(PanicInfo {
                signature: "panic:?:?:<uncaptured>".into(),
                message:   String::new(),
                location:  String::new(),
                function:  String::new(),
            }));
        }
    }
    out
}

/// Runs `f` on a fresh thread with the stack size a caller's main thread
/// would have, so that deep recursion is judged against a realistic limit.
pub fn on_big_stack<T: Send + 'static>(f: impl FnOnce() -> T + Send + 'static) -> T {
    on_stack(8 * 1024 * 1024, f)
}

/// Runs `f` on a fresh thread with a stack of `bytes`.
pub fn on_stack<T: Send + 'static>(bytes: usize, f: impl FnOnce() -> T + Send + 'static) -> T {
    std::thread::Builder::new()
        .stack_size(bytes)
        .spawn(f)
        .expect("spawn worker thread")
        .join()
        .expect("worker thread died outside catch_unwind")
}
