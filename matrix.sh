#!/bin/sh
# Runs every seeded change, every own mutant and every reverse-fix patch
# through all seven quick checks (scratch copies; nothing under /repo or
# /verif/evidence is touched). Takes a few hours; output: one line per
# (patch, check).   usage: matrix.sh <output file> [target dir]
OUT="$1"; export SENS_TARGET="${2:-/var/tmp/sens/target_matrix}"
: > "$OUT"
for p in /verif/seeded/*/patch.diff /verif/mutants/m*.diff /verif/mutants/unfix_*.diff; do
    /verif/sensitivity.sh "$p" >> "$OUT" 2>&1
done
