#!/bin/sh
# Sensitivity run: applies a patch to a scratch worktree of /repo, builds a
# scratch copy of the simulator against it and runs the quick checks, without
# touching /repo, /verif/target or /verif/evidence.
#   sensitivity.sh <patch.diff> [check ids...]      (default: all seven)
# Prints one line per check: "<patch> <ID> exit=<code> <summary>".
set -u
PATCH="$(readlink -f "$1")"; shift
CHECKS="${*:-C01 C02 C03 C13 C14 C15 C16}"
NAME="$(basename "$(dirname "$PATCH")")-$(basename "$PATCH" .diff)"
TARGET="${SENS_TARGET:-/var/tmp/sens/target}"
ROOT="/var/tmp/sens/$NAME"
rm -rf "$ROOT"; mkdir -p "$ROOT/out"
git -C /repo worktree add -q --detach "$ROOT/repo" HEAD || exit 2
if ! git -C "$ROOT/repo" apply "$PATCH"; then
    echo "$NAME: patch does not apply"; git -C /repo worktree remove --force "$ROOT/repo"; rm -rf "$ROOT"; exit 2
fi
# SENS_SIM: which simulator source to build (a frozen snapshot keeps a long
# matrix run consistent while /verif/sim is being edited).
SIM_SRC="${SENS_SIM:-/verif/sim}"
if [ -z "${SENS_SIM:-}" ] && [ -d /var/tmp/sim_frozen ]; then SIM_SRC=/var/tmp/sim_frozen; fi
cp -r "$SIM_SRC" "$ROOT/sim"
sed -i "s|path = \"/repo\"|path = \"$ROOT/repo\"|" "$ROOT/sim/Cargo.toml"
sed -i "s|target-dir = \"/verif/target\"|target-dir = \"$TARGET\"|" "$ROOT/sim/.cargo/config.toml"
cd "$ROOT/sim" || exit 2
export CARGO_NET_OFFLINE=true
export CARGO_TARGET_DIR="$TARGET"
export RUSTFLAGS="--cfg smlxl_storage_layout_extractor_verif --check-cfg cfg(smlxl_storage_layout_extractor_verif)"
if ! cargo build --release --offline >"$ROOT/build.log" 2>&1; then
    echo "$NAME: BUILD FAILED"; grep -E "^error" -A6 "$ROOT/build.log" | head -20
    git -C /repo worktree remove --force "$ROOT/repo"; rm -rf "$ROOT"; exit 2
fi
cp "$TARGET/release/slx-sim" "$ROOT/slx-sim"
SECOND=""
case " $CHECKS " in
    *" C01 "*)
        # C01 runs half of its cases under the debug-assertions profile, as check.sh does.
        if cargo build --profile devlike --offline >>"$ROOT/build.log" 2>&1; then
            cp "$TARGET/devlike/slx-sim" "$ROOT/slx-sim-devlike"; SECOND="$ROOT/slx-sim-devlike"
        fi
        ;;
esac
for id in $CHECKS; do
    SLX_OUT_DIR="$ROOT/out" SLX_SECOND_PROFILE_BIN="$SECOND" "$ROOT/slx-sim" check "$id" --tier quick >"$ROOT/out/$id.log" 2>&1
    code=$?
    sig=$(grep -m1 "^  signature:" "$ROOT/out/$id.log" | cut -c1-160)
    echo "$NAME $id exit=$code $(grep "^$id:" "$ROOT/out/$id.log" | sed 's/.*known_findings/known_findings/' | cut -c1-80) $sig"
done
git -C /repo worktree remove --force "$ROOT/repo"
rm -rf "$ROOT/sim" "$ROOT/repo" "$ROOT/slx-sim" "$ROOT/slx-sim-devlike"
