#!/bin/sh
# Entry point for every registered check.
#   check.sh build                      build the simulator against /repo's working tree (hooks on)
#   check.sh <ID> <quick|thorough>      run one property's check
#   check.sh replay <file>              re-execute a replay file in a fresh process
#   check.sh selftest <determinism|...> machinery self-tests
# Exit codes: 0 property held on everything explored; 1 violation (a line
# "VIOLATION property=<id> replay=<path>" is printed); 2 harness error.
set -u
VERIF=/verif
# Resolve a replay file given relative to the caller's directory before
# changing into the crate.
REPLAY_FILE=""
if [ "${1:-}" = "replay" ] && [ -n "${2:-}" ]; then
    REPLAY_FILE="$(readlink -f "$2")"
fi
cd "$VERIF/sim" || exit 2
export CARGO_NET_OFFLINE=true
export CARGO_TARGET_DIR="$VERIF/target"
export RUSTFLAGS="--cfg smlxl_storage_layout_extractor_verif --check-cfg cfg(smlxl_storage_layout_extractor_verif)"
mkdir -p "$VERIF/target" "$VERIF/evidence" "$VERIF/replays"

build() {
    # Always rebuilds from /repo's current working tree (cargo tracks the
    # path dependency's sources).
    if ! cargo build --release --offline >"$VERIF/target/build.log" 2>&1; then
        echo "harness error: build failed (see $VERIF/target/build.log)" >&2
        grep -E "^error" -A8 "$VERIF/target/build.log" | head -60 >&2
        exit 2
    fi
}

build_devlike() {
    # The same optimised build with debug assertions on (C01 runs half of its
    # cases under it).
    if ! cargo build --profile devlike --offline >"$VERIF/target/build_devlike.log" 2>&1; then
        echo "harness error: devlike build failed (see $VERIF/target/build_devlike.log)" >&2
        grep -E "^error" -A8 "$VERIF/target/build_devlike.log" | head -60 >&2
        exit 2
    fi
}

case "${1:-}" in
    build)
        build
        build_devlike
        ;;
    replay)
        build
        exec "$VERIF/target/release/slx-sim" replay "${REPLAY_FILE:?replay file}"
        ;;
    selftest)
        build
        shift
        exec "$VERIF/target/release/slx-sim" selftest "$@"
        ;;
    C01)
        build
        # C01 also runs under the same optimised build with debug assertions
        # on (what a user's debug build of the library has).
        build_devlike
        SLX_SECOND_PROFILE_BIN="$VERIF/target/devlike/slx-sim" exec "$VERIF/target/release/slx-sim" check C01 --tier "${2:-${VERIF_TIER:-quick}}"
        ;;
    C[0-9][0-9])
        build
        exec "$VERIF/target/release/slx-sim" check "$1" --tier "${2:-${VERIF_TIER:-quick}}"
        ;;
    *)
        echo "usage: check.sh build | <ID> <quick|thorough> | replay <file> | selftest <name>" >&2
        exit 2
        ;;
esac
