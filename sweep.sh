#!/bin/sh
# Maintenance aid: run the quick tier of every check under several seeds
# without touching /verif/evidence (a clean tree must stay quiet for any seed).
#   sweep.sh <first seed> <last seed> [binary dir]
BIN="${3:-/verif/target}"
mkdir -p /var/tmp/bgout
s="$1"
while [ "$s" -le "$2" ]; do
    for id in C01 C02 C03 C13 C14 C15 C16; do
        VERIF_SEED=$s SLX_OUT_DIR=/var/tmp/bgout SLX_SECOND_PROFILE_BIN="$BIN/devlike/slx-sim" "$BIN/release/slx-sim" check "$id" --tier quick >/var/tmp/bgout/sweep_${s}_$id.log 2>&1
        code=$?
        echo "seed=$s $id exit=$code $(grep "^$id:" /var/tmp/bgout/sweep_${s}_$id.log | sed 's/.*known_findings/known_findings/' | cut -c1-70) $(grep -m1 '^  signature' /var/tmp/bgout/sweep_${s}_$id.log | cut -c1-200)"
    done
    s=$((s + 1))
done
