#!/bin/sh
# Convenience: run every registered check of one tier in turn.
#   run_all.sh [quick|thorough]
tier="${1:-quick}"
rc=0
for id in C01 C02 C03 C13 C14 C15 C16; do
    /verif/check.sh "$id" "$tier" | grep -v "^KNOWN-FINDING" | grep -v "^  \[" | tail -4
    s=$?
    code=$(/bin/true; echo $?)
done
exit $rc
