#!/bin/sh
# Variant of sensitivity.sh for C01 only: also builds the debug-assertions
# profile, as check.sh does.  usage: sensitivity_c01.sh <patch.diff>
set -u
PATCH="$(readlink -f "$1")"
NAME="$(basename "$(dirname "$PATCH")")-$(basename "$PATCH" .diff)"
TARGET="${SENS_TARGET:-/var/tmp/sens/target}"
ROOT="/var/tmp/sens/$NAME-c01"
rm -rf "$ROOT"; mkdir -p "$ROOT/out"
git -C /repo worktree add -q --detach "$ROOT/repo" HEAD || exit 2
git -C "$ROOT/repo" apply "$PATCH" || { git -C /repo worktree remove --force "$ROOT/repo"; exit 2; }
cp -r /verif/sim "$ROOT/sim"
sed -i "s|path = \"/repo\"|path = \"$ROOT/repo\"|" "$ROOT/sim/Cargo.toml"
sed -i "s|target-dir = \"/verif/target\"|target-dir = \"$TARGET\"|" "$ROOT/sim/.cargo/config.toml"
cd "$ROOT/sim" || exit 2
export CARGO_NET_OFFLINE=true CARGO_TARGET_DIR="$TARGET"
export RUSTFLAGS="--cfg smlxl_storage_layout_extractor_verif --check-cfg cfg(smlxl_storage_layout_extractor_verif)"
cargo build --release --offline >"$ROOT/build.log" 2>&1 && cargo build --profile devlike --offline >>"$ROOT/build.log" 2>&1 || { echo "$NAME: BUILD FAILED"; exit 2; }
cp "$TARGET/release/slx-sim" "$ROOT/slx-sim"; cp "$TARGET/devlike/slx-sim" "$ROOT/slx-sim-devlike"
SLX_OUT_DIR="$ROOT/out" SLX_SECOND_PROFILE_BIN="$ROOT/slx-sim-devlike" "$ROOT/slx-sim" check C01 --tier quick >"$ROOT/out/C01.log" 2>&1
code=$?
echo "$NAME C01 exit=$code $(grep "^C01:" "$ROOT/out/C01.log" | sed 's/.*known_findings/known_findings/' | cut -c1-80) $(grep -m1 "^  signature:" "$ROOT/out/C01.log" | cut -c1-160)"
git -C /repo worktree remove --force "$ROOT/repo"; rm -rf "$ROOT/sim" "$ROOT/repo" "$ROOT/slx-sim" "$ROOT/slx-sim-devlike"
